//go:build verif

package json

import (
	"bytes"
	"math"

	"github.com/goccy/go-json/internal/verifrt"
)

func init() {
	VerifHarnesses["H_C02_floats"] = H_C02_floats
}

type vfT struct {
	F3 float32 `json:"f3"`
	F  float64 `json:"f"`
}

// float literals at the range and rounding boundaries of both widths decode as
// encoding/json decodes them (expected bits / error computed with strconv at
// the destination's precision; natively also compared with encoding/json by
// the reference tests): scalar, struct member and stream routes.
func H_C02_floats(t *verifrt.T) {
	lits := []struct {
		s     string
		bits3 uint32
		err3  bool
		bits  uint64
		err   bool
	}{
		{"1e39", 0, true, math.Float64bits(1e39), false},
		{"-1e39", 0, true, math.Float64bits(-1e39), false},
		{"3.4028236e38", 0, true, math.Float64bits(3.4028236e38), false},
		{"3.4028235e38", 0x7f7fffff, false, math.Float64bits(3.4028235e38), false},
		{"1.00000017881393432617187499", 0x3f800001, false, math.Float64bits(1.00000017881393432617187499), false},
		{"16777217.0000000001", 0x4b800001, false, math.Float64bits(16777217.0000000001), false},
		{"1e-50", 0, false, math.Float64bits(1e-50), false},
		{"0.1", 0x3dcccccd, false, math.Float64bits(0.1), false},
		{"1e400", 0, true, 0, true},
		{"1.7976931348623157e308", 0, true, math.Float64bits(math.MaxFloat64), false},
		{"1.7976931348623159e308", 0, true, 0, true},
		{"-0", 0x80000000, false, 1 << 63, false},
	}
	l := lits[t.Choice("literal", len(lits))]
	var f3 float32
	var f float64
	var e3, e error
	switch t.Choice("route", 3) {
	case 0:
		e3 = Unmarshal([]byte(l.s), &f3)
		e = Unmarshal([]byte(l.s), &f)
	case 1:
		var a, b vfT
		e3 = Unmarshal([]byte(`{"f3":`+l.s+`}`), &a)
		e = Unmarshal([]byte(`{"f":`+l.s+`}`), &b)
		f3, f = a.F3, b.F
	case 2:
		e3 = NewDecoder(bytes.NewReader([]byte(l.s+" "))).Decode(&f3)
		e = NewDecoder(bytes.NewReader([]byte(l.s+" "))).Decode(&f)
	}
	t.Assert("float32-error-as-encoding-json", (e3 != nil) == l.err3)
	t.Assert("float64-error-as-encoding-json", (e != nil) == l.err)
	if !l.err3 && e3 == nil {
		t.Assert("float32-value-as-encoding-json", math.Float32bits(f3) == l.bits3)
	}
	if !l.err && e == nil {
		t.Assert("float64-value-as-encoding-json", math.Float64bits(f) == l.bits)
	}
}
