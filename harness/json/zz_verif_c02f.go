//go:build verif

package json

import (
	"bytes"
	"math"

	"github.com/goccy/go-json/internal/verifrt"
)

func init() {
	VerifHarnesses["H_C02_floats"] = H_C02_floats
}

type vfT struct {
	F3 float32 `json:"f3"`
	F  float64 `json:"f"`
}

// float literals at the range and rounding boundaries of both widths decode as
// encoding/json decodes them (expected bits / error computed with strconv at
// the destination's precision; natively also compared with encoding/json by
// the reference tests): scalar, struct member and stream routes.
func H_C02_floats(t *verifrt.T) {
	lits := []struct {
		s     string
		bits3 uint32
		err3  bool
		bits  uint64
		err   bool
	}{
		{"1e39", 0, true, math.Float64bits(1e39), false},
		{"-1e39", 0, true, math.Float64bits(-1e39), false},
		{"3.4028236e38", 0, true, math.Float64bits(3.4028236e38), false},
		{"3.4028235e38", 0x7f7fffff, false, math.Float64bits(3.4028235e38), false},
		{"1.00000017881393432617187499", 0x3f800001, false, math.Float64bits(1.00000017881393432617187499), false},
		{"16777217.0000000001", 0x4b800001, false, math.Float64bits(16777217.0000000001), false},
		{"1e-50", 0, false, math.Float64bits(1e-50), false},
		{"0.1", 0x3dcccccd, false, math.Float64bits(0.1), false},
		{"1e400", 0, true, 0, true},
		{"1.7976931348623157e308", 0, true, math.Float64bits(math.MaxFloat64), false},
		{"1.7976931348623159e308", 0, true, 0, true},
		{"-0", 0x80000000, false, 1 << 63, false},
	}
	l := lits[t.Choice("literal", len(lits))]
	var f3 float32
	var f float64
	var e3, e error
	switch t.Choice("route", 3) {
	case 0:
		e3 = Unmarshal([]byte(l.s), &f3)
		e = Unmarshal([]byte(l.s), &f)
	case 1:
		var a, b vfT
		e3 = Unmarshal([]byte(`{"f3":`+l.s+`}`), &a)
		e = Unmarshal([]byte(`{"f":`+l.s+`}`), &b)
		f3, f = a.F3, b.F
	case 2:
		e3 = NewDecoder(bytes.NewReader([]byte(l.s + " "))).Decode(&f3)
		e = NewDecoder(bytes.NewReader([]byte(l.s + " "))).Decode(&f)
	}
	t.Assert("float32-error-as-encoding-json", (e3 != nil) == l.err3)
	t.Assert("float64-error-as-encoding-json", (e != nil) == l.err)
	if !l.err3 && e3 == nil {
		t.Assert("float32-value-as-encoding-json", math.Float32bits(f3) == l.bits3)
	}
	if !l.err && e == nil {
		t.Assert("float64-value-as-encoding-json", math.Float64bits(f) == l.bits)
	}
}

type vmPt struct {
	X int8 `json:"X"`
	Y int8 `json:"Y"`
}

type vmHolder2 struct {
	M  map[string]vmPt   `json:"m"`
	MP map[string]*vmPt  `json:"mp"`
	MS map[string][]int8 `json:"ms"`
}

func init() {
	VerifHarnesses["H_C02_map_values"] = H_C02_map_values
}

// map values are decoded into a fresh zero value and then stored (encoding/json):
// a key that already exists in the destination map, or that occurs twice in the
// document, does not merge old and new member values; pointer values are fresh
// pointers; slice values are replaced.
func H_C02_map_values(t *verifrt.T) {
	d := int8(smallInt(t, "d"))
	v := vmHolder2{}
	old := &vmPt{7, 8}
	if t.Choice("prepopulated", 2) == 1 {
		v.M = map[string]vmPt{"a": {7, 8}, "z": {5, 6}}
		v.MP = map[string]*vmPt{"a": old}
		v.MS = map[string][]int8{"a": {1, 2, 3}}
	}
	pre := v.M != nil
	var doc []byte
	dup := t.Choice("duplicate-key", 2) == 1
	num := refInt(nil, int64(d))
	if dup {
		doc = append(append([]byte(`{"m":{"a":{"X":1},"a":{"Y":`), num...), `}},"mp":{"a":{"X":1},"a":{"Y":2}},"ms":{"a":[9,9],"a":[4]}}`...)
	} else {
		doc = append(append([]byte(`{"m":{"a":{"Y":`), num...), `}},"mp":{"a":{"Y":2}},"ms":{"a":[4]}}`...)
	}
	err := Unmarshal(doc, &v)
	t.Assert("accepted", err == nil)
	if err != nil {
		return
	}
	t.Assert("struct-value-not-merged", v.M["a"] == vmPt{0, d})
	if pre {
		t.Assert("other-keys-kept", verifrt.And(len(v.M) == 2, v.M["z"] == vmPt{5, 6}))
		t.Assert("old-pointer-target-untouched", *old == vmPt{7, 8})
	} else {
		t.Assert("other-keys-kept", len(v.M) == 1)
	}
	p := v.MP["a"]
	t.Assert("pointer-value-fresh", verifrt.And(p != nil, p != old))
	if p != nil {
		t.Assert("pointer-value-not-merged", *p == vmPt{0, 2})
	}
	s := v.MS["a"]
	t.Assert("slice-value-replaced", verifrt.And(len(s) == 1, len(s) > 0 && s[0] == 4))
}
