//go:build verif

package json

import (
	"context"

	"github.com/goccy/go-json/internal/verifref"
	"github.com/goccy/go-json/internal/verifrt"
)

func init() {
	VerifHarnesses["H_C19_query"] = H_C19_query
}

type vqIn struct {
	X int    `json:"x"`
	Y string `json:"y"`
}

type vqT struct {
	A  int    `json:"a"`
	B  string `json:"b"`
	In vqIn   `json:"in"`
	C  bool   `json:"c"`
}

// Field queries project exactly the selected fields: every subset of the four
// top-level fields (and of the nested struct's two fields), two request orders.
func H_C19_query(t *verifrt.T) {
	// field values: one symbolic integer, the rest fixed (projection does not depend on the values)
	v := &vqT{A: int(smallInt(t, "a")), B: "q", In: vqIn{X: 5, Y: "r"}, C: true}
	sel := t.Choice("subset", 16)
	sub := t.Choice("in-subset", 4)
	q := &FieldQuery{}
	b := []byte{'{'}
	sep := func() {
		if len(b) > 1 {
			b = append(b, ',')
		}
	}
	if sel&1 != 0 {
		q.Fields = append(q.Fields, &FieldQuery{Name: "a"})
		sep()
		b = append(b, `"a":`...)
		b = refInt(b, int64(v.A))
	}
	if sel&2 != 0 {
		q.Fields = append(q.Fields, &FieldQuery{Name: "b"})
		sep()
		b = append(b, `"b":`...)
		b = refStr(b, v.B)
	}
	if sel&4 != 0 {
		in := &FieldQuery{Name: "in"}
		sep()
		b = append(b, `"in":{`...)
		first := true
		if sub == 0 {
			// a sub-query without fields keeps the whole member
			b = append(b, `"x":`...)
			b = refInt(b, int64(v.In.X))
			b = append(b, `,"y":`...)
			b = refStr(b, v.In.Y)
		}
		if sub&1 != 0 {
			in.Fields = append(in.Fields, &FieldQuery{Name: "x"})
			b = append(b, `"x":`...)
			b = refInt(b, int64(v.In.X))
			first = false
		}
		if sub&2 != 0 {
			in.Fields = append(in.Fields, &FieldQuery{Name: "y"})
			if !first {
				b = append(b, ',')
			}
			b = append(b, `"y":`...)
			b = refStr(b, v.In.Y)
		}
		b = append(b, '}')
		q.Fields = append(q.Fields, in)
	}
	if sel&8 != 0 {
		q.Fields = append(q.Fields, &FieldQuery{Name: "c"})
		sep()
		b = append(b, `"c":`...)
		b = refBool(b, v.C)
	}
	b = append(b, '}')
	ctx := SetFieldQueryToContext(context.Background(), q)
	switch t.Choice("history", 3) {
	case 1:
		Marshal(v) // request order: the unfiltered program first
	case 2:
		// another query on the same type first (a different projection of the nested struct)
		other := &FieldQuery{Fields: []*FieldQuery{{Name: "a"}, {Name: "in", Fields: []*FieldQuery{{Name: []string{"x", "y"}[t.Choice("other-sub", 2)]}}}}}
		MarshalContext(SetFieldQueryToContext(context.Background(), other), v)
	}
	out, err := MarshalContext(ctx, v)
	t.Assert("marshal-succeeds", err == nil)
	t.ObserveBytes("out", out)
	t.Assert("projects-exactly-the-selected-fields", verifref.BytesEq(out, b))
	// the unfiltered encoding is not disturbed by the filtered program
	full, err2 := Marshal(v)
	t.Assert("unfiltered-still-complete", verifrt.And(err2 == nil, len(full) >= len(out)))
}
