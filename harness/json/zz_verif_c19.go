//go:build verif

package json

import (
	"context"

	"github.com/goccy/go-json/internal/verifref"
	"github.com/goccy/go-json/internal/verifrt"
)

func init() {
	VerifHarnesses["H_C19_query"] = H_C19_query
}

type vqIn struct {
	X int    `json:"x"`
	Y string `json:"y"`
}

type vqT struct {
	A  int    `json:"a"`
	B  string `json:"b"`
	In vqIn   `json:"in"`
	C  bool   `json:"c"`
}

// Field queries project exactly the selected fields: every subset of the four
// top-level fields (and of the nested struct's two fields), two request orders.
func H_C19_query(t *verifrt.T) {
	// field values: one symbolic integer, the rest fixed (projection does not depend on the values)
	v := &vqT{A: int(smallInt(t, "a")), B: "q", In: vqIn{X: 5, Y: "r"}, C: true}
	sel := t.Choice("subset", 16)
	sub := t.Choice("in-subset", 4)
	q := &FieldQuery{}
	b := []byte{'{'}
	sep := func() {
		if len(b) > 1 {
			b = append(b, ',')
		}
	}
	if sel&1 != 0 {
		q.Fields = append(q.Fields, &FieldQuery{Name: "a"})
		sep()
		b = append(b, `"a":`...)
		b = refInt(b, int64(v.A))
	}
	if sel&2 != 0 {
		q.Fields = append(q.Fields, &FieldQuery{Name: "b"})
		sep()
		b = append(b, `"b":`...)
		b = refStr(b, v.B)
	}
	if sel&4 != 0 {
		in := &FieldQuery{Name: "in"}
		sep()
		b = append(b, `"in":{`...)
		first := true
		if sub == 0 {
			// a sub-query without fields keeps the whole member
			b = append(b, `"x":`...)
			b = refInt(b, int64(v.In.X))
			b = append(b, `,"y":`...)
			b = refStr(b, v.In.Y)
		}
		if sub&1 != 0 {
			in.Fields = append(in.Fields, &FieldQuery{Name: "x"})
			b = append(b, `"x":`...)
			b = refInt(b, int64(v.In.X))
			first = false
		}
		if sub&2 != 0 {
			in.Fields = append(in.Fields, &FieldQuery{Name: "y"})
			if !first {
				b = append(b, ',')
			}
			b = append(b, `"y":`...)
			b = refStr(b, v.In.Y)
		}
		b = append(b, '}')
		q.Fields = append(q.Fields, in)
	}
	if sel&8 != 0 {
		q.Fields = append(q.Fields, &FieldQuery{Name: "c"})
		sep()
		b = append(b, `"c":`...)
		b = refBool(b, v.C)
	}
	b = append(b, '}')
	ctx := SetFieldQueryToContext(context.Background(), q)
	switch t.Choice("history", 3) {
	case 1:
		Marshal(v) // request order: the unfiltered program first
	case 2:
		// another query on the same type first (a different projection of the nested struct)
		other := &FieldQuery{Fields: []*FieldQuery{{Name: "a"}, {Name: "in", Fields: []*FieldQuery{{Name: []string{"x", "y"}[t.Choice("other-sub", 2)]}}}}}
		MarshalContext(SetFieldQueryToContext(context.Background(), other), v)
	}
	out, err := MarshalContext(ctx, v)
	t.Assert("marshal-succeeds", err == nil)
	t.ObserveBytes("out", out)
	t.Assert("projects-exactly-the-selected-fields", verifref.BytesEq(out, b))
	// the unfiltered encoding is not disturbed by the filtered program
	full, err2 := Marshal(v)
	t.Assert("unfiltered-still-complete", verifrt.And(err2 == nil, len(full) >= len(out)))
}

// ---------------------------------------------------------------- nested kinds

type vqN struct {
	X int    `json:"x"`
	C string `json:"c"` // shares its name with a top-level field
}

// context-aware marshaler that encodes itself through MarshalContext (the
// documented way for a custom marshaler to take part in field queries)
type vqM struct {
	X int    `json:"x"`
	C string `json:"c"`
}

type vqMPlain vqM

func (m *vqM) MarshalJSON(ctx context.Context) ([]byte, error) {
	if ctx == nil {
		// plain Marshal hands a nil context to context-aware marshalers
		ctx = context.Background()
	}
	return MarshalContext(ctx, (*vqMPlain)(m))
}

type vqIn2 struct {
	A  int  `json:"a"`
	In vqN  `json:"in"`
	C  bool `json:"c"`
}
type vqPtr struct {
	A  int  `json:"a"`
	In *vqN `json:"in"`
	C  bool `json:"c"`
}
type vqSlice struct {
	A  int   `json:"a"`
	In []vqN `json:"in"`
	C  bool  `json:"c"`
}
type vqMap struct {
	A  int            `json:"a"`
	In map[string]vqN `json:"in"`
	C  bool           `json:"c"`
}
type vqIface struct {
	A  int         `json:"a"`
	In interface{} `json:"in"`
	C  bool        `json:"c"`
}
type vqMarsh struct {
	A  int  `json:"a"`
	In *vqM `json:"in"`
	C  bool `json:"c"`
}

func init() {
	VerifHarnesses["H_C19_kinds"] = H_C19_kinds
}

// c19Build: the query selecting subset sel of {a, in, c} with sub-selection sub
// of the nested fields {x, c} (0 = whole member), optionally with names that do
// not exist, and the reference projection for nested kind k.
func c19Build(k, sel, sub int, ghost bool, a int64) (*FieldQuery, []byte) {
	q := &FieldQuery{}
	b := []byte{'{'}
	sep := func() {
		if len(b) > 1 {
			b = append(b, ',')
		}
	}
	nested := func(b []byte) []byte {
		b = append(b, '{')
		if sub == 0 || sub&1 != 0 {
			b = append(b, `"x":5`...)
		}
		if sub == 0 || sub&2 != 0 {
			if sub != 2 {
				b = append(b, ',')
			}
			b = append(b, `"c":"r"`...)
		}
		return append(b, '}')
	}
	if sel&1 != 0 {
		q.Fields = append(q.Fields, &FieldQuery{Name: "a"})
		sep()
		b = append(b, `"a":`...)
		b = refInt(b, a)
	}
	if ghost {
		q.Fields = append(q.Fields, &FieldQuery{Name: "nope"})
	}
	if sel&2 != 0 {
		in := &FieldQuery{Name: "in"}
		if sub&1 != 0 {
			in.Fields = append(in.Fields, &FieldQuery{Name: "x"})
		}
		if ghost && sub != 0 {
			in.Fields = append(in.Fields, &FieldQuery{Name: "a"}) // exists one level up only
		}
		if sub&2 != 0 {
			in.Fields = append(in.Fields, &FieldQuery{Name: "c"})
		}
		q.Fields = append(q.Fields, in)
		sep()
		b = append(b, `"in":`...)
		switch k {
		case 2: // slice of two
			b = append(b, '[')
			b = nested(b)
			b = append(b, ',')
			b = nested(b)
			b = append(b, ']')
		case 3: // map with one key
			b = append(b, `{"k":`...)
			b = nested(b)
			b = append(b, '}')
		default:
			b = nested(b)
		}
	}
	if sel&4 != 0 {
		q.Fields = append(q.Fields, &FieldQuery{Name: "c"})
		sep()
		b = append(b, `"c":true`...)
	}
	return q, append(b, '}')
}

func c19Value(k int, a int64) interface{} {
	n := vqN{X: 5, C: "r"}
	switch k {
	case 0:
		return &vqIn2{A: int(a), In: n, C: true}
	case 1:
		return &vqPtr{A: int(a), In: &n, C: true}
	case 2:
		return &vqSlice{A: int(a), In: []vqN{n, n}, C: true}
	case 3:
		return &vqMap{A: int(a), In: map[string]vqN{"k": n}, C: true}
	case 4:
		return &vqIface{A: int(a), In: n, C: true}
	}
	return &vqMarsh{A: int(a), In: &vqM{X: 5, C: "r"}, C: true}
}

// Field queries through every nested kind (struct, pointer, slice, map,
// interface, context-aware marshaler; KIND selects one): every subset of
// {a, in, c} x every sub-selection of the nested {x, c} (none = whole member)
// x names that do not exist, after every other query of the same family (or
// the unfiltered encoding, or nothing) was used on the same type.
func H_C19_kinds(t *verifrt.T) {
	k := t.Param("KIND")
	a := smallInt(t, "a")
	v := c19Value(k, a)
	q, want := c19Build(k, t.Choice("subset", 8), t.Choice("in-subset", 4), t.Choice("ghost", 2) == 1, a)
	switch h := t.Choice("history", 34); {
	case h == 1:
		Marshal(v) // request order: the unfiltered program first
	case h >= 2:
		// another query of the family on the same type first
		other, _ := c19Build(k, (h-2)/4, (h-2)%4, false, a)
		MarshalContext(SetFieldQueryToContext(context.Background(), other), v)
	}
	out, err := MarshalContext(SetFieldQueryToContext(context.Background(), q), v)
	t.Assert("marshal-succeeds", err == nil)
	t.ObserveBytes("out", out)
	t.Assert("projects-exactly-the-selected-fields", verifref.BytesEq(out, want))
	full, err2 := Marshal(v)
	_, wantFull := c19Build(k, 7, 0, false, a)
	t.Assert("unfiltered-still-complete", verifrt.And(err2 == nil, verifref.BytesEq(full, wantFull)))
}

// ---------------------------------------------------------------- recursive types

type vqR struct {
	Val  int    `json:"val"`
	Tag  string `json:"tag"`
	Next *vqR   `json:"next"`
}

func init() {
	VerifHarnesses["H_C19_recursive"] = H_C19_recursive
}

// Field queries on a recursive type: the sub-query on the recursive member (or
// its absence: the whole member) decides what the nested levels show.
// Recorded finding D59: the root's filtered program is applied at every level.
func H_C19_recursive(t *verifrt.T) {
	a := smallInt(t, "a")
	num := refInt(nil, a)
	v := &vqR{Val: int(a), Tag: "a", Next: &vqR{Val: 2, Tag: "b", Next: &vqR{Val: 3, Tag: "c"}}}
	var q *FieldQuery
	var want, rootEverywhere []byte
	switch t.Choice("query", 3) {
	case 0: // ["val",{"next":["tag"]}]
		q = &FieldQuery{Fields: []*FieldQuery{{Name: "val"}, {Name: "next", Fields: []*FieldQuery{{Name: "tag"}}}}}
		want = append(append([]byte(`{"val":`), num...), `,"next":{"tag":"b"}}`...)
		rootEverywhere = append(append([]byte(`{"val":`), num...), `,"next":{"val":2,"next":{"val":3,"next":null}}}`...)
	case 1: // ["val","next"]: the member as a whole
		q = &FieldQuery{Fields: []*FieldQuery{{Name: "val"}, {Name: "next"}}}
		want = append(append([]byte(`{"val":`), num...), `,"next":{"val":2,"tag":"b","next":{"val":3,"tag":"c","next":null}}}`...)
		rootEverywhere = append(append([]byte(`{"val":`), num...), `,"next":{"val":2,"next":{"val":3,"next":null}}}`...)
	case 2: // ["tag"]
		q = &FieldQuery{Fields: []*FieldQuery{{Name: "tag"}}}
		want = []byte(`{"tag":"a"}`)
		rootEverywhere = want
	}
	out, err := MarshalContext(SetFieldQueryToContext(context.Background(), q), v)
	t.Assert("marshal-succeeds", err == nil)
	t.ObserveBytes("out", out)
	ok := verifref.BytesEq(out, want)
	kf := verifrt.And(!ok, verifref.BytesEq(out, rootEverywhere))
	t.Known("D59-field-query-on-recursive-member-uses-the-root-program", kf)
	t.Assert("projects-exactly-the-selected-fields", verifrt.Or(ok, kf))
	full, err2 := Marshal(v)
	wantFull := append(append([]byte(`{"val":`), num...), `,"tag":"a","next":{"val":2,"tag":"b","next":{"val":3,"tag":"c","next":null}}}`...)
	t.Assert("unfiltered-still-complete", verifrt.And(err2 == nil, verifref.BytesEq(full, wantFull)))
}
