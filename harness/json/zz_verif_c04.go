//go:build verif

package json

import (
	"bytes"
	"math"

	"github.com/goccy/go-json/internal/verifref"
	"github.com/goccy/go-json/internal/verifrt"
)

func init() {
	VerifHarnesses["H_C04_extremes"] = H_C04_extremes
}

type vxInts struct {
	I8  int8   `json:"i8"`
	I16 int16  `json:"i16"`
	I32 int32  `json:"i32"`
	I64 int64  `json:"i64"`
	I   int    `json:"i"`
	U8  uint8  `json:"u8"`
	U16 uint16 `json:"u16"`
	U32 uint32 `json:"u32"`
	U64 uint64 `json:"u64"`
	U   uint   `json:"u"`
}

type vxCont struct {
	B  []byte         `json:"b"`
	S  []int          `json:"s"`
	M  map[string]int `json:"m"`
	MI map[int]string `json:"mi"`
	A  [2]int8        `json:"a"`
	P  *int           `json:"p"`
	BB [][]byte       `json:"bb"`
	T  string         `json:"t"`
}

type vxFloat struct {
	F  float64 `json:"f"`
	F3 float32 `json:"f3"`
}

type vx8 struct {
	F0 int `json:"fa"`
	F1 int `json:"fb"`
	F2 int `json:"fc"`
	F3 int `json:"fd"`
	F4 int `json:"fe"`
	F5 int `json:"ff"`
	F6 int `json:"fg"`
	F7 int `json:"fh"`
}

type vx9 struct {
	F0 int `json:"fa"`
	F1 int `json:"fb"`
	F2 int `json:"fc"`
	F3 int `json:"fd"`
	F4 int `json:"fe"`
	F5 int `json:"ff"`
	F6 int `json:"fg"`
	F7 int `json:"fh"`
	F8 int `json:"fi"`
}

type vx16 struct {
	F0  int `json:"fa"`
	F1  int `json:"fb"`
	F2  int `json:"fc"`
	F3  int `json:"fd"`
	F4  int `json:"fe"`
	F5  int `json:"ff"`
	F6  int `json:"fg"`
	F7  int `json:"fh"`
	F8  int `json:"fi"`
	F9  int `json:"fj"`
	F10 int `json:"fk"`
	F11 int `json:"fl"`
	F12 int `json:"fm"`
	F13 int `json:"fn"`
	F14 int `json:"fo"`
	F15 int `json:"fp"`
}

type vx17 struct {
	F0  int `json:"fa"`
	F1  int `json:"fb"`
	F2  int `json:"fc"`
	F3  int `json:"fd"`
	F4  int `json:"fe"`
	F5  int `json:"ff"`
	F6  int `json:"fg"`
	F7  int `json:"fh"`
	F8  int `json:"fi"`
	F9  int `json:"fj"`
	F10 int `json:"fk"`
	F11 int `json:"fl"`
	F12 int `json:"fm"`
	F13 int `json:"fn"`
	F14 int `json:"fo"`
	F15 int `json:"fp"`
	F16 int `json:"fq"`
}

// c04Via: the three routes of the statement: Marshal/Unmarshal, MarshalIndent/Unmarshal, Encoder/Decoder.
func c04Via(t *verifrt.T, in, out interface{}) {
	var text []byte
	var err error
	via := t.Choice("via", 3)
	switch via {
	case 0:
		text, err = Marshal(in)
	case 1:
		text, err = MarshalIndent(in, "", " ")
	case 2:
		var w bytes.Buffer
		err = NewEncoder(&w).Encode(in)
		text = w.Bytes()
	}
	t.Assert("encode-ok", err == nil)
	t.ObserveBytes("text", text)
	if via == 2 {
		err = NewDecoder(bytes.NewReader(text)).Decode(out)
	} else {
		err = Unmarshal(text, out)
	}
	t.Assert("decode-ok", err == nil)
}

func sgn(i int) int64 {
	return []int64{0, 1, -1}[i]
}

// extreme integers of every width, empty versus nil containers, strings of
// every ASCII escape class, floats that need 17 digits / exponent forms.
func H_C04_extremes(t *verifrt.T) {
	switch t.Param("FAMILY") {
	case 0:
		// one boundary per width, all widths at once: which = min / min+1 / -1,0,1 / max-1 / max
		k := t.Choice("which", 5)
		small := int64(0)
		if k == 2 {
			small = sgn(t.Choice("small", 3))
		}
		pick := func(min, max int64) int64 {
			return []int64{min, min + 1, small, max - 1, max}[k]
		}
		upick := func(max uint64) uint64 {
			return []uint64{0, 1, max / 2, max - 1, max}[k]
		}
		v := vxInts{I8: int8(pick(math.MinInt8, math.MaxInt8)), I16: int16(pick(math.MinInt16, math.MaxInt16)),
			I32: int32(pick(math.MinInt32, math.MaxInt32)), I64: pick(math.MinInt64, math.MaxInt64), I: int(pick(math.MinInt64, math.MaxInt64)),
			U8: uint8(upick(math.MaxUint8)), U16: uint16(upick(math.MaxUint16)), U32: uint32(upick(math.MaxUint32)),
			U64: upick(math.MaxUint64), U: uint(upick(math.MaxUint64))}
		var w vxInts
		c04Via(t, &v, &w)
		t.Assert("integers-reproduced", w == v)
	case 1:
		v := vxCont{}
		x := int(smallInt(t, "x"))
		switch t.Choice("bytes", 4) {
		case 1:
			v.B = []byte{}
		case 2:
			v.B = []byte{7}
		case 3:
			v.B = []byte{1, 250, 0xff, 0}
		}
		switch t.Choice("slice", 3) {
		case 1:
			v.S = []int{}
		case 2:
			v.S = []int{x, 0}
		}
		switch t.Choice("map", 3) {
		case 1:
			v.M = map[string]int{}
			v.MI = map[int]string{}
		case 2:
			v.M = map[string]int{"k": x}
			v.MI = map[int]string{7: "v", math.MinInt64: ""}
		}
		if t.Choice("ptr", 2) == 1 {
			v.P = &x
		}
		switch t.Choice("bb", 3) {
		case 1:
			v.BB = [][]byte{}
		case 2:
			v.BB = [][]byte{nil, {}, {1}}
		}
		v.A = [2]int8{int8(x), -128}
		v.T = "t"
		var w vxCont
		c04Via(t, &v, &w)
		t.Assert("bytes-reproduced", verifrt.And((w.B == nil) == (v.B == nil), verifref.BytesEq(w.B, v.B)))
		okS := verifrt.And((w.S == nil) == (v.S == nil), len(w.S) == len(v.S))
		if okS && len(v.S) == 2 {
			okS = verifrt.And(w.S[0] == v.S[0], w.S[1] == v.S[1])
		}
		t.Assert("slice-reproduced", okS)
		okM := verifrt.And((w.M == nil) == (v.M == nil), len(w.M) == len(v.M), (w.MI == nil) == (v.MI == nil), len(w.MI) == len(v.MI))
		if okM && len(v.M) == 1 {
			okM = verifrt.And(w.M["k"] == x, w.MI[7] == "v")
			_, has := w.MI[math.MinInt64]
			okM = verifrt.And(okM, has)
		}
		t.Assert("maps-reproduced", okM)
		t.Assert("array-reproduced", w.A == v.A)
		okP := (w.P == nil) == (v.P == nil)
		if okP && v.P != nil {
			okP = *w.P == x
		}
		t.Assert("pointer-reproduced", okP)
		okBB := verifrt.And((w.BB == nil) == (v.BB == nil), len(w.BB) == len(v.BB))
		if okBB && len(v.BB) == 3 {
			okBB = verifrt.And(w.BB[0] == nil, w.BB[1] != nil, len(w.BB[1]) == 0, len(w.BB[2]) == 1)
		}
		t.Assert("nested-bytes-reproduced", okBB)
		t.Assert("string-reproduced", w.T == v.T)
	case 3:
		// symbolic content: every 2-byte []byte (base64 both ways) and every 2-byte ASCII string
		v := vxCont{}
		if t.Choice("what", 2) == 0 {
			v.B = []byte{t.Byte("b0"), t.Byte("b1")}
		} else {
			c0, c1 := t.Byte("c0"), t.Byte("c1")
			t.Assume(verifrt.And(c0 < 0x80, c1 < 0x80))
			v.T = string([]byte{c0, c1})
		}
		var w vxCont
		c04Via(t, &v, &w)
		t.Assert("bytes-reproduced", verifrt.And((w.B == nil) == (v.B == nil), verifref.BytesEq(w.B, v.B)))
		t.Assert("string-reproduced", w.T == v.T)
	case 4:
		// structs with 8, 9, 16 and 17 members: the sizes around the key decoders' switch points
		// (8-bit bitmap, 16-bit bitmap, map lookup)
		a := int(smallInt(t, "a"))
		switch t.Choice("members", 4) {
		case 0:
			v := vx8{a + 0, a + 1, a + 2, a + 3, a + 4, a + 5, a + 6, a + 7}
			var w vx8
			c04Via(t, &v, &w)
			t.Assert("members-reproduced", w == v)
		case 1:
			v := vx9{a + 0, a + 1, a + 2, a + 3, a + 4, a + 5, a + 6, a + 7, a + 8}
			var w vx9
			c04Via(t, &v, &w)
			t.Assert("members-reproduced", w == v)
		case 2:
			v := vx16{a + 0, a + 1, a + 2, a + 3, a + 4, a + 5, a + 6, a + 7, a + 8, a + 9, a + 10, a + 11, a + 12, a + 13, a + 14, a + 15}
			var w vx16
			c04Via(t, &v, &w)
			t.Assert("members-reproduced", w == v)
		case 3:
			v := vx17{a + 0, a + 1, a + 2, a + 3, a + 4, a + 5, a + 6, a + 7, a + 8, a + 9, a + 10, a + 11, a + 12, a + 13, a + 14, a + 15, a + 16}
			var w vx17
			c04Via(t, &v, &w)
			t.Assert("members-reproduced", w == v)
		}
	case 2:
		f := []float64{0, 1, -1, 0.1, 1.0 / 3.0, 1e21, 1e20, 1e-6, 1e-7, math.MaxFloat64, math.SmallestNonzeroFloat64, -math.MaxFloat64,
			5e-324, 123456789.123456789, 9007199254740993, 4.9406564584124654e-324}[t.Choice("f64", 16)]
		f3 := []float32{0, 1, 0.1, 1.0 / 3.0, math.MaxFloat32, math.SmallestNonzeroFloat32, 1e21, 1e-7, 16777216, -3.4e38}[t.Choice("f32", 10)]
		v := vxFloat{F: f, F3: f3}
		var w vxFloat
		c04Via(t, &v, &w)
		t.Assert("floats-reproduced", verifrt.And(math.Float64bits(w.F) == math.Float64bits(v.F), math.Float32bits(w.F3) == math.Float32bits(v.F3)))
	}
}
