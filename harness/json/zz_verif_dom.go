//go:build verif

package json

import (
	"github.com/goccy/go-json/internal/verifref"
	"github.com/goccy/go-json/internal/verifrt"
)

func init() {
	VerifHarnesses["H_TB_dominance"] = H_TB_dominance
}

// Go's field dominance rule across embedded structs: the shallowest field of a
// name wins; two at the same shallowest depth cancel unless exactly one is tagged.
type VdX1 struct{ X int }
type VdB1 struct{ VdX1 }  // X at depth 2
type VdC1 struct{ X int } // X at depth 1
type vdDomA struct {      // X: VdC1.X dominates
	VdB1
	VdC1
}
type VdL struct{ Y int }
type VdR struct{ Y int }
type vdDomB struct { // Y twice at the same depth, untagged: neither
	VdL
	VdR
	Z int
}
type VdT struct {
	W int `json:"W"`
}
type VdU struct{ W int }
type vdDomC struct { // W twice at the same depth, one tagged: the tagged one
	VdT
	VdU
}

func H_TB_dominance(t *verifrt.T) {
	a, b := int(smallInt(t, "a")), int(smallInt(t, "b"))
	var v interface{}
	var ref []byte
	var doc []byte
	shape := t.Choice("shape", 3)
	switch shape {
	case 0:
		v = &vdDomA{VdB1{VdX1{a}}, VdC1{b}}
		ref = append(append([]byte(`{"X":`), verifref.Itoa(int64(b))...), '}')
		doc = ref
	case 1:
		v = &vdDomB{VdL{a}, VdR{b}, 3}
		ref = []byte(`{"Z":3}`)
		doc = append(append([]byte(`{"Y":`), verifref.Itoa(int64(a))...), `,"Z":4}`...)
	case 2:
		v = &vdDomC{VdT{a}, VdU{b}}
		ref = append(append([]byte(`{"W":`), verifref.Itoa(int64(a))...), '}')
		doc = ref
	}
	out, err := Marshal(v)
	t.Assert("marshal-succeeds", err == nil)
	t.Assert("marshal-follows-dominance", verifref.BytesEq(out, ref))
	switch shape {
	case 0:
		var w vdDomA
		err = Unmarshal(doc, &w)
		t.Assert("unmarshal-succeeds", err == nil)
		t.Assert("unmarshal-follows-dominance", verifrt.And(w.VdC1.X == b, w.VdB1.X == 0))
	case 1:
		var w vdDomB
		err = Unmarshal(doc, &w)
		t.Assert("unmarshal-succeeds", err == nil)
		t.Assert("unmarshal-follows-dominance", verifrt.And(w.VdL.Y == 0, w.VdR.Y == 0, w.Z == 4))
	case 2:
		var w vdDomC
		err = Unmarshal(doc, &w)
		t.Assert("unmarshal-succeeds", err == nil)
		t.Assert("unmarshal-follows-dominance", verifrt.And(w.VdT.W == a, w.VdU.W == 0))
	}
}
