//go:build verif

package json

import (
	"bytes"

	"github.com/goccy/go-json/internal/verifrt"
)

func init() {
	VerifHarnesses["H_C07_widths"] = H_C07_widths
}

// every scalar width followed by a guard of the same width, arrays of small
// elements followed by guards, and separately allocated small objects (pointer
// targets, slice elements, map values) whose end is the end of their allocation
type vwT struct {
	I8   int8              `json:"i8"`
	G1   uint8             `json:"-"`
	U8   uint8             `json:"u8"`
	G2   uint8             `json:"-"`
	B    bool              `json:"b"`
	G3   uint8             `json:"-"`
	I16  int16             `json:"i16"`
	G4   uint16            `json:"-"`
	U16  uint16            `json:"u16"`
	G5   uint16            `json:"-"`
	I32  int32             `json:"i32"`
	G6   uint32            `json:"-"`
	U32  uint32            `json:"u32"`
	G7   uint32            `json:"-"`
	F32  float32           `json:"f32"`
	G8   uint32            `json:"-"`
	A16  [3]int16          `json:"a16"`
	G9   uint16            `json:"-"`
	A32  [1]uint32         `json:"a32"`
	G10  uint32            `json:"-"`
	AB   [3]bool           `json:"ab"`
	G11  uint8             `json:"-"`
	P16  *int16            `json:"p16"`
	P8   *uint8            `json:"p8"`
	PF   *float32          `json:"pf"`
	S16  []int16           `json:"s16"`
	S8   []bool            `json:"s8"`
	M16  map[string]uint16 `json:"m16"`
	Last int16             `json:"last"`
}

// Decoding a document that sets every member (route: Unmarshal or Decoder)
// writes only the members: all guards keep their canaries and no store leaves a
// live object (the engine checks every store of the real decoders against the
// allocation it targets: a 4-byte store into a 2-byte pointer target, slice
// element or the struct's last member is out of bounds).
func H_C07_widths(t *verifrt.T) {
	d := t.Byte("d")
	t.Assume(verifrt.And(d >= '0', d <= '9'))
	neg := t.Choice("negative", 2) == 1
	num := []byte{d}
	snum := []byte{d}
	if neg {
		snum = []byte{'-', d}
	}
	doc := []byte(`{"i8":`)
	doc = append(doc, snum...)
	doc = append(append(doc, `,"u8":`...), num...)
	doc = append(doc, `,"b":true,"i16":`...)
	doc = append(doc, snum...)
	doc = append(append(doc, `,"u16":`...), num...)
	doc = append(append(doc, `,"i32":`...), snum...)
	doc = append(append(doc, `,"u32":`...), num...)
	doc = append(append(doc, `,"f32":`...), snum...)
	doc = append(append(doc, `,"a16":[`...), snum...)
	doc = append(append(doc, `,1,`...), snum...)
	doc = append(append(doc, `],"a32":[`...), num...)
	doc = append(doc, `],"ab":[true,false,true],"p16":`...)
	doc = append(doc, snum...)
	doc = append(append(doc, `,"p8":`...), num...)
	doc = append(append(doc, `,"pf":`...), snum...)
	doc = append(append(doc, `,"s16":[`...), snum...)
	doc = append(append(doc, `,2],"s8":[true],"m16":{"k":`...), num...)
	doc = append(append(doc, `},"last":`...), snum...)
	doc = append(doc, '}')
	v := &vwT{G1: 0xa1, G2: 0xa2, G3: 0xa3, G4: 0xa4a4, G5: 0xa5a5, G6: 0xa6a6a6a6, G7: 0xa7a7a7a7, G8: 0xa8a8a8a8, G9: 0xa9a9, G10: 0xaaaaaaaa, G11: 0xab}
	var err error
	if t.Choice("route", 2) == 0 {
		err = Unmarshal(doc, v)
	} else {
		err = NewDecoder(bytes.NewReader(doc)).Decode(v)
	}
	t.Assert("accepted", err == nil)
	guards := verifrt.And(v.G1 == 0xa1, v.G2 == 0xa2, v.G3 == 0xa3, v.G4 == 0xa4a4, v.G5 == 0xa5a5, v.G6 == 0xa6a6a6a6,
		v.G7 == 0xa7a7a7a7, v.G8 == 0xa8a8a8a8, v.G9 == 0xa9a9, v.G10 == 0xaaaaaaaa, v.G11 == 0xab)
	t.Assert("guards-untouched", guards)
	want := int16(d - '0')
	if neg {
		want = -want
	}
	if err == nil {
		t.Assert("values-decoded", verifrt.And(v.I8 == int8(want), v.U8 == d-'0', v.B, v.I16 == want, v.U16 == uint16(d-'0'), v.I32 == int32(want),
			v.U32 == uint32(d-'0'), v.A16 == [3]int16{want, 1, want}, v.A32[0] == uint32(d-'0'), v.AB == [3]bool{true, false, true}, v.Last == want))
		okP := verifrt.And(v.P16 != nil, v.P8 != nil, v.PF != nil, len(v.S16) == 2, len(v.S8) == 1, len(v.M16) == 1)
		t.Assert("indirect-members-allocated", okP)
		if okP {
			t.Assert("indirect-values-decoded", verifrt.And(*v.P16 == want, *v.P8 == d-'0', v.S16[0] == want, v.S16[1] == 2, v.S8[0], v.M16["k"] == uint16(d-'0')))
		}
	}
}
