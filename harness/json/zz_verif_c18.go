//go:build verif

package json

import (
	"bytes"

	"github.com/goccy/go-json/internal/verifref"
	"github.com/goccy/go-json/internal/verifrt"
)

func init() {
	VerifHarnesses["H_C18_valid"] = H_C18_valid
	VerifHarnesses["H_C18_htmlescape"] = H_C18_htmlescape
}

func c18jAlphabet(t *verifrt.T, src []byte) {
	if t.Param("ALPHA") != 1 {
		return
	}
	for i := range src {
		c := src[i]
		t.Assume(verifrt.Or(c == '[', c == ']', c == '{', c == '}', c == '"', c == ',', c == ':', c == '1', c == ' ', c == '\\'))
	}
}

// Valid(data) for every data of N bytes against the RFC 8259 grammar.
func H_C18_valid(t *verifrt.T) {
	n := t.Param("N")
	src := t.Bytes("src", n)
	c18jAlphabet(t, src)
	orig := make([]byte, n)
	copy(orig, src)
	got := Valid(src)
	t.ObserveBool("valid", got)
	strict := verifref.ValidJSON(orig, verifref.Relax{})
	t.Assert("valid-reports-true-only-for-valid-json", verifrt.Implies(got, strict))
	t.Assert("valid-json-reported-valid", verifrt.Implies(strict, got))
	t.Assert("source-unchanged", verifref.BytesEq(src, orig))
	t.Cover("some-valid", got)
}

// HTMLEscape(dst, src): valid src -> dst grows by an equivalent text (the
// canonical re-encoding) without raw < > & U+2028 U+2029; invalid src -> dst
// unchanged.
func H_C18_htmlescape(t *verifrt.T) {
	n := t.Param("N")
	pre := t.Choice("pre", t.Param("PRE")+1)
	src := t.Bytes("src", n)
	c18jAlphabet(t, src)
	orig := make([]byte, n)
	copy(orig, src)
	before := t.Bytes("dst", pre)
	var buf bytes.Buffer
	buf.Write(before)
	HTMLEscape(&buf, src)
	got := buf.Bytes()
	t.ObserveBytes("dst", got)
	strict := verifref.ValidJSON(orig, verifref.Relax{})
	t.Assert("source-unchanged", verifref.BytesEq(src, orig))
	t.Assert("destination-prefix-kept", verifrt.And(len(got) >= pre, verifref.BytesEq(got[:pre], before)))
	if len(got) < pre {
		return
	}
	added := got[pre:]
	if !strict {
		t.Assert("invalid-text-leaves-destination", len(added) == 0)
		return
	}
	raw := false
	for i := 0; i < len(added); i++ {
		c := added[i]
		if c == '<' || c == '>' || c == '&' {
			raw = true
		}
		if c == 0xe2 && i+2 < len(added) && added[i+1] == 0x80 && added[i+2]&^1 == 0xa8 {
			raw = true
		}
	}
	t.Assert("no-raw-html-characters", !raw)
	t.Assert("output-is-valid-json", verifref.ValidJSON(added, verifref.Relax{}))
	// equivalence: both texts have the same canonical re-encoding (strings
	// compared by decoded value, numbers by literal, structure by token)
	t.Assert("output-equivalent-to-source", verifref.BytesEq(verifref.RefCanon(added, true), verifref.RefCanon(orig, true)))
	// and, like encoding/json, every string, number and member stays as written
	t.Assert("output-is-the-escaped-compaction", verifref.BytesEq(added, verifref.RefCompact(orig, true)))
	t.Cover("escaped-some-valid", true)
}
