//go:build verif

package json

import (
	stdjson "encoding/json"

	"github.com/goccy/go-json/internal/verifrt"
)

func init() {
	VerifHarnesses["H_C02_contracts"] = H_C02_contracts
}

type vcT struct {
	S   []int8          `json:"s"`
	P   *int8           `json:"p"`
	M   map[string]int8 `json:"m"`
	A   [2]int8         `json:"a"`
	I   int8            `json:"i"`
	Str string          `json:"str"`
	B   bool            `json:"b"`
}

func c02Digit(t *verifrt.T, name string) (byte, int8) {
	d := t.Byte(name)
	t.Assume(verifrt.And(d >= '0', d <= '9'))
	return d, int8(d - '0')
}

// Container contracts of encoding/json.Unmarshal (null, empty, reuse of existing
// storage, merge into maps, duplicate keys, unknown keys, null into scalars),
// for every digit value and every enumerated initial destination state. The
// expected state is computed by the contract below; natively the same document
// is also given to encoding/json on an identical destination and must agree
// (so the contract itself is validated on every native trace).
func H_C02_contracts(t *verifrt.T) {
	mk := func() *vcT {
		v := &vcT{I: 3, Str: "old", A: [2]int8{8, 9}, B: true}
		return v
	}
	v, want := mk(), mk()
	initS := t.Choice("init-s", 3)
	initP := t.Choice("init-p", 2)
	initM := t.Choice("init-m", 2)
	set := func(x *vcT) {
		switch initS {
		case 1:
			x.S = []int8{7}
		case 2:
			x.S = make([]int8, 2, 4)
			x.S[0], x.S[1] = 5, 6
		}
		if initP == 1 {
			p := int8(5)
			x.P = &p
		}
		if initM == 1 {
			x.M = map[string]int8{"k": 1}
		}
	}
	set(v)
	set(want)
	oldP := v.P
	d0c, d0 := c02Digit(t, "d0")
	d1c, d1 := c02Digit(t, "d1")
	var doc []byte
	form := t.Choice("form", 17)
	switch form {
	case 0:
		doc = []byte(`{"s":null}`)
		want.S = nil
	case 1:
		doc = []byte(`{"s":[]}`)
		want.S = []int8{}
	case 2:
		doc = append(append([]byte(`{"s":[`), d0c), `]}`...)
		want.S = []int8{d0}
	case 3:
		doc = append(append(append(append([]byte(`{"s":[`), d0c), ','), d1c), `, 1 ]}`...)
		want.S = []int8{d0, d1, 1}
	case 4:
		doc = []byte(`{"p":null}`)
		want.P = nil
	case 5:
		doc = append(append([]byte(`{"p":`), d0c), '}')
		x := d0
		want.P = &x
	case 6:
		doc = []byte(`{"m":null}`)
		want.M = nil
	case 7:
		doc = []byte(`{"m":{}}`)
		if want.M == nil {
			want.M = map[string]int8{}
		}
	case 8:
		doc = append(append([]byte(`{"m":{"k":`), d0c), `}}`...)
		if want.M == nil {
			want.M = map[string]int8{}
		}
		want.M["k"] = d0
	case 9:
		doc = append(append(append(append([]byte(`{"m":{"j":`), d0c), `,"j":`...), d1c), `}}`...)
		if want.M == nil {
			want.M = map[string]int8{}
		}
		want.M["j"] = d1
	case 10:
		doc = append(append(append(append([]byte(`{"i":`), d0c), `,"i":`...), d1c), '}')
		want.I = d1
	case 11:
		doc = append(append([]byte(`{"zz":[1,{"x":"}"}],"i":`), d0c), `,"yy":null}`...)
		want.I = d0
	case 12:
		doc = []byte(`{"i":null,"str":null,"b":null,"a":null}`)
	case 13:
		doc = append(append([]byte(`{"a":[`), d0c), `]}`...)
		want.A = [2]int8{d0, 0}
	case 14:
		doc = append(append(append(append([]byte(`{"a":[`), d0c), ','), d1c), `,7,8]}`...)
		want.A = [2]int8{d0, d1}
	case 16:
		doc = []byte(`{"a":[ ]}`)
		want.A = [2]int8{0, 0}
	case 15:
		doc = append(append([]byte(`{"str":"`), d0c), `\n","b":false}`...)
		want.Str = string([]byte{d0c, '\n'})
		want.B = false
	}
	err := Unmarshal(doc, v)
	t.Assert("valid-document-accepted", err == nil)
	if !t.Symbolic() {
		// native: encoding/json on an identical destination validates the contract
		std := mk()
		set(std)
		serr := stdjson.Unmarshal(doc, std)
		t.Assert("contract-equals-encoding-json", serr == nil && c02Equal(std, want))
	}
	t.Assert("state-as-encoding-json", c02Equal(v, want))
	if form == 5 && initP == 1 {
		t.Assert("existing-pointer-target-reused", v.P == oldP)
	}
}

func c02Equal(a, b *vcT) bool {
	if (a.S == nil) != (b.S == nil) || len(a.S) != len(b.S) {
		return false
	}
	for i := range a.S {
		if a.S[i] != b.S[i] {
			return false
		}
	}
	if (a.P == nil) != (b.P == nil) || (a.P != nil && *a.P != *b.P) {
		return false
	}
	if (a.M == nil) != (b.M == nil) || len(a.M) != len(b.M) {
		return false
	}
	for _, k := range []string{"k", "j"} {
		av, aok := a.M[k]
		bv, bok := b.M[k]
		if aok != bok || av != bv {
			return false
		}
	}
	return a.A == b.A && a.I == b.I && a.Str == b.Str && a.B == b.B
}
