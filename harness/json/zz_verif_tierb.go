//go:build verif

package json

import (
	"math"
	"bytes"
	stdjson "encoding/json"

	"github.com/goccy/go-json/internal/verifref"
	"github.com/goccy/go-json/internal/verifrt"
)

var VerifHarnesses = map[string]func(*verifrt.T){
	"H_TB_scalars": H_TB_scalars,
	"H_TB_nested":  H_TB_nested,
	"H_TB_rec":     H_TB_rec,
	"H_TB_iface":   H_TB_iface,
	"H_TB_tags":    H_TB_tags,
	"H_TB_deep":    H_TB_deep,
	"H_TB_recmap":  H_TB_recmap,
	"H_TB_recouter": H_TB_recouter,
}

// VerifSetup warms the opcode caches once per engine worker (the compiler runs
// concretely on the type tokens; the values stay symbolic in the harnesses).
func VerifSetup() {
	for _, v := range []interface{}{&vtScalars{}, vtScalars{}, &vtNested{}, &vtRec{}, &vtIface{}, vtInner{}, &vtInner{}, &vsT{}, &vtTags{}, vtTags{}, &vtTop{}, vtTop{}, &vtIface2{}, &vtRecMap{}, &vtHolder{}, []interface{}{vtOuter{}}, &vtOuter{}} {
		Marshal(v)
		MarshalIndent(v, "", " ")
		MarshalWithOption(v, Colorize(&ColorScheme{}))
		MarshalIndentWithOption(v, "", " ", Colorize(&ColorScheme{}))
	}
	// decoder side: compile the decoders of the harness target types once
	Unmarshal([]byte(`{}`), &vcT{})
	Unmarshal([]byte(`{}`), &vskT{})
	Unmarshal([]byte(`{}`), &vdS2{})
	Unmarshal([]byte(`{}`), &vkA{})
	Unmarshal([]byte(`{}`), &vkB{})
	Unmarshal([]byte(`{}`), &vaT{})
	Unmarshal([]byte(`{}`), &vsT{})
	Unmarshal([]byte(`{}`), &vtScalars{})
	Unmarshal([]byte(`{}`), &vtTags{})
	Unmarshal([]byte(`{}`), &vsI{})
}

// smallInt: a symbolic integer in [-9,9] (integer formatting itself is C16's
// subject; one-digit values keep the printed bytes a function of one input byte).
func smallInt(t *verifrt.T, name string) int64 {
	b := t.Byte(name)
	if p := t.Param("PROP"); p == 3 || p == 13 {
		// the JSON recogniser / re-indenter classify digits (leading zero, sign): keep one class
		// per integer there; all of [-9,9] is covered by the byte-equality obligations of PROP 1
		t.Assume(verifrt.And(b >= 10, b <= 18))
	} else {
		t.Assume(b <= 18)
	}
	return int64(b) - 9
}

func smallUint(t *verifrt.T, name string) uint64 {
	b := t.Byte(name)
	if p := t.Param("PROP"); p == 3 || p == 13 {
		t.Assume(verifrt.And(b >= 1, b <= 9))
	} else {
		t.Assume(b <= 9)
	}
	return uint64(b)
}

func symString(t *verifrt.T, name string, max int) string {
	return t.String(name, t.Choice(name+"-len", max+1))
}

// plainString: symbolic length, bytes symbolic within 'a'..'z' (escaping is
// C17's subject; the structural harnesses keep one class per byte).
func plainString(t *verifrt.T, name string, max int) string {
	if m := t.ParamOr("SLEN", 0); m > max {
		max = m // thorough tier: longer strings
	}
	n := t.Choice(name+"-len", max+1)
	b := t.Bytes(name, n)
	for i := range b {
		t.Assume(verifrt.And(b[i] >= 'a', b[i] <= 'z'))
	}
	return string(b)
}

// ---------------------------------------------------------------- reference helpers

func refInt(b []byte, v int64) []byte   { return append(b, verifref.Itoa(v)...) }
func refUint(b []byte, v uint64) []byte { return append(b, verifref.Utoa(v)...) }
func refStr(b []byte, s string) []byte  { return append(b, verifref.EscapeRef([]byte(s), true, true)...) }
func refBool(b []byte, v bool) []byte {
	if v {
		return append(b, "true"...)
	}
	return append(b, "false"...)
}

// checkMarshal runs the obligations selected by PROP on value v with
// reference text ref (what encoding/json produces).
//
//	PROP 1  (C01): Marshal(v) == reference; natively the reference itself is compared with encoding/json
//	PROP 3  (C03): every entry point's output is one valid JSON text
//	PROP 13 (C13): MarshalIndent == Indent(Marshal); Encoder.Encode == Marshal + "\n"; MarshalNoEscape agrees
func checkMarshal(t *verifrt.T, v interface{}, ref []byte) {
	prop := t.Param("PROP")
	out, err := Marshal(v)
	t.Assert("marshal-succeeds", err == nil)
	t.ObserveBytes("out", out)
	if !t.Symbolic() {
		// native runs validate the hand-written reference against encoding/json itself
		std, serr := stdjson.Marshal(v)
		std = bytes.ReplaceAll(std, []byte(`\b`), []byte(`\u0008`))
		std = bytes.ReplaceAll(std, []byte(`\f`), []byte(`\u000c`))
		t.Assert("reference-equals-encoding-json", serr == nil && bytes.Equal(std, ref))
	}
	switch prop {
	case 1:
		t.Assert("marshal-equals-encoding-json", verifref.BytesEq(out, ref))
	case 3:
		t.Assert("valid-json", verifref.ValidJSON(out, verifref.Relax{}))
		ind, err2 := MarshalIndent(v, "", "\t")
		t.Assert("indent-succeeds", err2 == nil)
		t.Assert("indent-valid-json", verifref.ValidJSON(ind, verifref.Relax{}))
	case 13:
		for _, pi := range [][2]string{{"", " "}, {">", "\t"}} {
			ind, err2 := MarshalIndent(v, pi[0], pi[1])
			t.Assert("indent-succeeds", err2 == nil)
			want := verifref.RefIndent(out, []byte(pi[0]), []byte(pi[1]), true)
			t.Assert("indent-equals-indented-compact", verifref.BytesEq(ind, want))
		}
		var w bytes.Buffer
		enc := NewEncoder(&w)
		err3 := enc.Encode(v)
		t.Assert("encoder-succeeds", err3 == nil)
		t.Assert("encoder-equals-marshal-newline", verifref.BytesEq(w.Bytes(), append(append([]byte{}, out...), '\n')))
		// an Encoder with HTML escaping switched off describes the same document as the option
		var w2 bytes.Buffer
		enc2 := NewEncoder(&w2)
		enc2.SetEscapeHTML(false)
		err3b := enc2.Encode(v)
		noHTML, err3c := MarshalWithOption(v, DisableHTMLEscape())
		t.Assert("encoder-nohtml-equals-option", verifrt.And(err3b == nil, err3c == nil, verifref.BytesEq(w2.Bytes(), append(append([]byte{}, noHTML...), '\n'))))
		ne, err4 := MarshalNoEscape(v)
		t.Assert("noescape-succeeds", err4 == nil)
		t.Assert("noescape-equals-marshal", verifref.BytesEq(ne, out))
		// the colour interpreters with an empty scheme describe the same document
		col, err5 := MarshalWithOption(v, Colorize(&ColorScheme{}))
		t.Assert("colour-succeeds", err5 == nil)
		t.Assert("colour-empty-scheme-equals-marshal", verifref.BytesEq(col, out))
		coli, err6 := MarshalIndentWithOption(v, ">", "\t", Colorize(&ColorScheme{}))
		ind2, _ := MarshalIndent(v, ">", "\t")
		t.Assert("colour-indent-succeeds", err6 == nil)
		t.Assert("colour-indent-empty-scheme-equals-indent", verifref.BytesEq(coli, ind2))
		if t.ParamOr("UNORD", 0) == 1 {
			// values whose maps hold at most one entry: UnorderedMap can only change the order
			un, err7 := MarshalWithOption(v, UnorderedMap())
			t.Assert("unordered-equals-marshal", verifrt.And(err7 == nil, verifref.BytesEq(un, out)))
			uni, err8 := MarshalIndentWithOption(v, ">", "\t", UnorderedMap())
			t.Assert("unordered-indent-equals-indent", verifrt.And(err8 == nil, verifref.BytesEq(uni, ind2)))
			unic, err9 := MarshalIndentWithOption(v, ">", "\t", UnorderedMap(), Colorize(&ColorScheme{}))
			t.Assert("unordered-colour-indent-equals-indent", verifrt.And(err9 == nil, verifref.BytesEq(unic, ind2)))
		}
	}
}

// ---------------------------------------------------------------- scalars and tags

type vtScalars struct {
	I8    int8
	U16   uint16 `json:"u16,omitempty"`
	I64   int64  `json:",string"`
	B     bool
	S     string  `json:"s"`
	PS    *string `json:"ps,omitempty"`
	PI    *int
	Skip  int `json:"-"`
	lower int
	OB    bool `json:"ob,omitempty"`
}

func refScalars(v *vtScalars) []byte {
	b := []byte(`{"I8":`)
	b = refInt(b, int64(v.I8))
	if v.U16 != 0 {
		b = append(b, `,"u16":`...)
		b = refUint(b, uint64(v.U16))
	}
	b = append(b, `,"I64":"`...)
	b = refInt(b, v.I64)
	b = append(b, `","B":`...)
	b = refBool(b, v.B)
	b = append(b, `,"s":`...)
	b = refStr(b, v.S)
	if v.PS != nil {
		b = append(b, `,"ps":`...)
		b = refStr(b, *v.PS)
	}
	b = append(b, `,"PI":`...)
	if v.PI == nil {
		b = append(b, "null"...)
	} else {
		b = refInt(b, int64(*v.PI))
	}
	if v.OB {
		b = append(b, `,"ob":true`...)
	}
	return append(b, '}')
}

func H_TB_scalars(t *verifrt.T) {
	v := &vtScalars{I8: int8(smallInt(t, "i8")), U16: uint16(smallUint(t, "u16")), I64: smallInt(t, "i64"), B: t.Bool("b"),
		S: symString(t, "s", 1), Skip: 7, lower: 8, OB: t.Bool("ob")}
	if t.Choice("ps", 2) == 1 {
		s := plainString(t, "ps", 1)
		v.PS = &s
	}
	if t.Choice("pi", 2) == 1 {
		i := int(smallInt(t, "pi"))
		v.PI = &i
	}
	ref := refScalars(v)
	if t.Choice("by-value", 2) == 1 {
		checkMarshal(t, *v, ref)
	} else {
		checkMarshal(t, v, ref)
	}
}

// ---------------------------------------------------------------- nesting, embedding, slices, arrays

type vtInner struct {
	X int    `json:"x"`
	Y string `json:"y,omitempty"`
}

type VtEmb struct {
	Z int8 `json:"z"`
}

type vtNested struct {
	In vtInner
	P  *vtInner `json:"p"`
	VtEmb
	L []vtInner `json:"l,omitempty"`
	A [2]int8
	E struct{}
	N []int `json:"n"`
}

func refInner(b []byte, v *vtInner) []byte {
	b = append(b, `{"x":`...)
	b = refInt(b, int64(v.X))
	if v.Y != "" {
		b = append(b, `,"y":`...)
		b = refStr(b, v.Y)
	}
	return append(b, '}')
}

func refNested(v *vtNested) []byte {
	b := []byte(`{"In":`)
	b = refInner(b, &v.In)
	b = append(b, `,"p":`...)
	if v.P == nil {
		b = append(b, "null"...)
	} else {
		b = refInner(b, v.P)
	}
	b = append(b, `,"z":`...)
	b = refInt(b, int64(v.Z))
	if len(v.L) > 0 {
		b = append(b, `,"l":[`...)
		for i := range v.L {
			if i > 0 {
				b = append(b, ',')
			}
			b = refInner(b, &v.L[i])
		}
		b = append(b, ']')
	}
	b = append(b, `,"A":[`...)
	b = refInt(b, int64(v.A[0]))
	b = append(b, ',')
	b = refInt(b, int64(v.A[1]))
	b = append(b, `],"E":{},"n":`...)
	if v.N == nil {
		b = append(b, "null"...)
	} else {
		b = append(b, '[')
		for i, x := range v.N {
			if i > 0 {
				b = append(b, ',')
			}
			b = refInt(b, int64(x))
		}
		b = append(b, ']')
	}
	return append(b, '}')
}

func symInner(t *verifrt.T, name string) vtInner {
	return vtInner{X: int(smallInt(t, name+".x")), Y: plainString(t, name+".y", 1)}
}

func H_TB_nested(t *verifrt.T) {
	v := &vtNested{In: symInner(t, "in"), A: [2]int8{int8(smallInt(t, "a0")), int8(smallInt(t, "a1"))}}
	v.Z = int8(smallInt(t, "z"))
	if t.Choice("p", 2) == 1 {
		in := symInner(t, "p")
		v.P = &in
	}
	nl := t.Choice("llen", 3)
	for i := 0; i < nl; i++ {
		v.L = append(v.L, symInner(t, "l"))
	}
	switch t.Choice("n", 3) {
	case 1:
		v.N = []int{}
	case 2:
		v.N = []int{int(smallInt(t, "n0"))}
	}
	checkMarshal(t, v, refNested(v))
}

// ---------------------------------------------------------------- recursion (C08)

type vtRec struct {
	V    int    `json:"v"`
	Next *vtRec `json:"next,omitempty"`
	Tail string `json:"tail"`
}

func refRec(b []byte, v *vtRec) []byte {
	b = append(b, `{"v":`...)
	b = refInt(b, int64(v.V))
	if v.Next != nil {
		b = append(b, `,"next":`...)
		b = refRec(b, v.Next)
	}
	b = append(b, `,"tail":`...)
	b = refStr(b, v.Tail)
	return append(b, '}')
}

func H_TB_rec(t *verifrt.T) {
	depth := t.Choice("depth", t.Param("DEPTH")+1)
	if t.Param("PROP") != 8 && t.Choice("shape", 2) == 1 {
		// the recursive pointer is the LAST field (the program's frame ends with the recursion slots)
		head := &vtList{V: int(smallInt(t, "v"))}
		cur := head
		for i := 0; i < depth; i++ {
			cur.Next = &vtList{V: i + 2}
			cur = cur.Next
		}
		checkMarshal(t, head, refList(nil, head))
		return
	}
	head := &vtRec{V: int(smallInt(t, "v")), Tail: plainString(t, "tail", 1)}
	cur := head
	for i := 0; i < depth; i++ {
		cur.Next = &vtRec{V: int(smallInt(t, "v")), Tail: "t"}
		cur = cur.Next
	}
	if t.Param("PROP") == 8 && t.Choice("very-deep", 2) == 1 {
		// acyclic values nested beyond the depth at which cycle detection starts (1000 frames):
		// a recursive struct list and nested []interface{}; encoding must still succeed
		const n = 1003
		dk := t.Choice("deep-kind", 4)
		if dk == 3 {
			// an encoding that FAILS below the cycle-detection depth (a NaN at the end of the list)
			// must not leave anything behind: the repaired value encodes (the pool hands the
			// context of the failed call to the next one when POOLREUSE=1)
			root := &vtNanNode{}
			cur := root
			for i := 0; i < n; i++ {
				cur.Next = &vtNanNode{}
				cur = cur.Next
			}
			cur.F = math.NaN()
			_, err := Marshal(root)
			t.Assert("non-finite-float-is-an-error", err != nil)
			cur.F = 1
			out, err := Marshal(root)
			t.Assert("encodes-after-a-failed-encoding", verifrt.And(err == nil, len(out) > 2*n))
			return
		}
		if dk == 2 {
			// a value reached twice (a DAG, not a cycle) below the depth at which cycle detection
			// starts: nil interfaces inside it must not be taken for a cycle
			leaf := &vtDagLeaf{}
			root := &vtDagNode{}
			cur := root
			for i := 0; i < n; i++ {
				cur.Next = &vtDagNode{}
				cur = cur.Next
			}
			cur.Items = []*vtDagLeaf{leaf, leaf}
			out, err := Marshal(root)
			t.Assert("very-deep-dag-encodes", verifrt.And(err == nil, len(out) > 2*n))
			return
		}
		if dk == 0 {
			l := &vtList{V: 1}
			for i := 0; i < n; i++ {
				l = &vtList{V: 2, Next: l}
			}
			out, err := Marshal(l)
			t.Assert("very-deep-acyclic-list-encodes", verifrt.And(err == nil, len(out) > 2*n))
		} else {
			var v interface{} = 1
			for i := 0; i < n; i++ {
				v = []interface{}{v}
			}
			out, err := Marshal(v)
			t.Assert("very-deep-acyclic-nesting-encodes", verifrt.And(err == nil, len(out) == 2*n+1))
		}
		return
	}
	if t.Param("PROP") == 8 && t.Choice("cyclic", 2) == 1 {
		// a cyclic value must produce an error, not a crash or an endless run
		cur.Next = head
		_, err := Marshal(head)
		t.Assert("cycle-reported-as-error", err != nil)
		return
	}
	checkMarshal(t, head, refRec(nil, head))
}

type vtNanNode struct {
	Next *vtNanNode
	F    float64
}

type vtDagLeaf struct{ V interface{} }
type vtDagNode struct {
	Next  *vtDagNode
	Items []*vtDagLeaf
}

// ---------------------------------------------------------------- interface members

type vtIface struct {
	A interface{} `json:"a"`
	B interface{} `json:"b,omitempty"`
	C int         `json:"c"`
}

func H_TB_iface(t *verifrt.T) {
	v := &vtIface{C: int(smallInt(t, "c"))}
	b := []byte(`{"a":`)
	switch t.Choice("a", 5) {
	case 0:
		b = append(b, "null"...)
	case 1:
		x := int(smallInt(t, "ai"))
		v.A = x
		b = refInt(b, int64(x))
	case 2:
		s := plainString(t, "as", 1)
		v.A = s
		b = refStr(b, s)
	case 3:
		in := symInner(t, "ain")
		v.A = in
		b = refInner(b, &in)
	case 4:
		in := symInner(t, "apin")
		v.A = &in
		b = refInner(b, &in)
	}
	switch t.Choice("b", 3) {
	case 1:
		x := t.Bool("bb")
		v.B = x
		b = append(b, `,"b":`...)
		b = refBool(b, x)
	case 2:
		var p *vtInner
		v.B = p // typed nil pointer inside a non-nil interface: not omitted, prints null
		b = append(b, `,"b":null`...)
	}
	b = append(b, `,"c":`...)
	b = refInt(b, int64(v.C))
	b = append(b, '}')
	checkMarshal(t, v, b)
}

// ---------------------------------------------------------------- tag / position combinations

// boundary integers are ENUMERATED concrete values (printing them is C16's
// subject; what matters here is the emptiness test on the masked width)
var vtI16 = []int16{0, 1, -1, 256, -256, -32768} // quick tier uses the first NI16
var vtU16 = []uint16{0, 1, 256, 0xff00}

type vtTags struct {
	First []int8  `json:"first,omitempty"`
	A     int16   `json:"a,omitempty"`
	B     uint16  `json:"b,omitempty,string"`
	M     []int8  `json:"m,omitempty"`
	PS    *int8   `json:"ps,omitempty,string"`
	PO    *int8   `json:"po,omitempty"`
	BS    bool    `json:"bs,omitempty,string"`
	S     string  `json:"s,omitempty"`
	PP    **int8  `json:"pp"`
	Last  *int16  `json:"last,omitempty,string"`
}

func symSlice(t *verifrt.T, name string) []int8 {
	switch t.Choice(name, 3) {
	case 1:
		return []int8{}
	case 2:
		return []int8{int8(smallInt(t, name+"0"))}
	}
	return nil
}

func refInt8s(b []byte, s []int8) []byte {
	b = append(b, '[')
	for i, x := range s {
		if i > 0 {
			b = append(b, ',')
		}
		b = refInt(b, int64(x))
	}
	return append(b, ']')
}

func refTags(v *vtTags) []byte {
	b := []byte{'{'}
	sep := func() {
		if len(b) > 1 {
			b = append(b, ',')
		}
	}
	if len(v.First) > 0 {
		sep()
		b = append(b, `"first":`...)
		b = refInt8s(b, v.First)
	}
	if v.A != 0 {
		sep()
		b = append(b, `"a":`...)
		b = refInt(b, int64(v.A))
	}
	if v.B != 0 {
		sep()
		b = append(b, `"b":"`...)
		b = refUint(b, uint64(v.B))
		b = append(b, '"')
	}
	if len(v.M) > 0 {
		sep()
		b = append(b, `"m":`...)
		b = refInt8s(b, v.M)
	}
	if v.PS != nil {
		sep()
		b = append(b, `"ps":"`...)
		b = refInt(b, int64(*v.PS))
		b = append(b, '"')
	}
	if v.PO != nil {
		sep()
		b = append(b, `"po":`...)
		b = refInt(b, int64(*v.PO))
	}
	if v.BS {
		sep()
		b = append(b, `"bs":"true"`...)
	}
	if v.S != "" {
		sep()
		b = append(b, `"s":`...)
		b = refStr(b, v.S)
	}
	sep()
	b = append(b, `"pp":`...)
	if v.PP == nil || *v.PP == nil {
		b = append(b, "null"...)
	} else {
		b = refInt(b, int64(**v.PP))
	}
	if v.Last != nil {
		sep()
		b = append(b, `"last":"`...)
		b = refInt(b, int64(*v.Last))
		b = append(b, '"')
	}
	return append(b, '}')
}

// PART selects which group of members varies (the others stay empty/omitted);
// the last member varies in both groups (its comma handling depends on what precedes).
func H_TB_tags(t *verifrt.T) {
	part := t.Param("PART")
	v := &vtTags{}
	if part == 0 {
		v.First = symSlice(t, "first")
		v.A = vtI16[t.Choice("a", t.Param("NI16"))]
		v.B = vtU16[t.Choice("b", t.Param("NU16"))]
		v.M = symSlice(t, "m")
	} else {
		if t.Choice("ps", 2) == 1 {
			x := int8(smallInt(t, "psv"))
			v.PS = &x
		}
		if t.Choice("po", 2) == 1 {
			x := int8(t.Choice("pov", 2)) // a pointer to 0 is NOT empty
			v.PO = &x
		}
		v.BS = t.Choice("bs", 2) == 1
		v.S = plainString(t, "s", 1)
		switch t.Choice("pp", 3) {
		case 1:
			var inner *int8
			v.PP = &inner
		case 2:
			x := int8(smallInt(t, "ppv"))
			inner := &x
			v.PP = &inner
		}
	}
	if t.Choice("last", 2) == 1 {
		x := vtI16[1+t.Choice("lastv", 2)*2] // 1 or 256
		v.Last = &x
	}
	ref := refTags(v)
	if t.Choice("by-value", 2) == 1 {
		checkMarshal(t, *v, ref)
	} else {
		checkMarshal(t, v, ref)
	}
}

// ---------------------------------------------------------------- embedding depth and name conflicts, nested interfaces

type VtBase struct {
	ID  int `json:"ID"`
	Rev int
}

type VtMid struct {
	VtBase
	Name string
}

type vtTop struct {
	ID int
	VtMid
	Extra *VtBase `json:"extra,omitempty"`
}

type vtNode struct {
	Child *vtInner    `json:"child,omitempty"`
	Any   interface{} `json:"any,omitempty"`
	X     int         `json:"x"`
}

type vtHolder struct {
	ID   int      `json:"id"`
	Node *vtNode  `json:"node"`
	Tag  string   `json:"tag"`
	L    []*vtNode `json:"l"`
}

type vtIface2 struct {
	A interface{} `json:"a"`
	L []interface{}
}

func H_TB_deep(t *verifrt.T) {
	switch t.Choice("shape", 3) {
	case 2:
		// nil / non-nil pointers to a struct whose FIRST member is an omitempty pointer-to-struct,
		// followed by further members and by slice elements
		v := &vtHolder{ID: int(smallInt(t, "id")), Tag: plainString(t, "tag", 1)}
		b := []byte(`{"id":`)
		b = refInt(b, int64(v.ID))
		node := func(name string) (*vtNode, []byte) {
			switch t.Choice(name, 3) {
			case 1:
				return &vtNode{X: 2}, []byte(`{"x":2}`)
			case 2:
				in := symInner(t, name+".child")
				out := append([]byte(`{"child":`), refInner(nil, &in)...)
				return &vtNode{Child: &in, X: 3}, append(out, `,"x":3}`...)
			}
			return nil, []byte("null")
		}
		var nb []byte
		v.Node, nb = node("node")
		b = append(append(b, `,"node":`...), nb...)
		b = append(b, `,"tag":`...)
		b = refStr(b, v.Tag)
		b = append(b, `,"l":`...)
		switch t.Choice("l", 3) {
		case 0:
			b = append(b, "null"...)
		case 1:
			n1, b1 := node("l0")
			v.L = []*vtNode{n1}
			b = append(append(append(b, '['), b1...), ']')
		case 2:
			n1, b1 := node("l0")
			n2, b2 := node("l1")
			v.L = []*vtNode{n1, n2}
			b = append(append(append(append(append(b, '['), b1...), ','), b2...), ']')
		}
		b = append(b, '}')
		checkMarshal(t, v, b)
	case 0:
		v := &vtTop{ID: int(smallInt(t, "id"))}
		v.VtMid.VtBase.ID = int(smallInt(t, "bid"))
		v.Rev = int(smallInt(t, "rev"))
		v.Name = plainString(t, "name", 1)
		b := []byte(`{"ID":`)
		b = refInt(b, int64(v.ID))
		b = append(b, `,"Rev":`...)
		b = refInt(b, int64(v.Rev))
		b = append(b, `,"Name":`...)
		b = refStr(b, v.Name)
		if t.Choice("extra", 2) == 1 {
			v.Extra = &VtBase{ID: int(smallInt(t, "eid")), Rev: 2}
			b = append(b, `,"extra":{"ID":`...)
			b = refInt(b, int64(v.Extra.ID))
			b = append(b, `,"Rev":2}`...)
		}
		b = append(b, '}')
		if t.Choice("by-value", 2) == 1 {
			checkMarshal(t, *v, b)
		} else {
			checkMarshal(t, v, b)
		}
	case 1:
		// interface{} inside interface{}: struct and slice payloads two levels down
		in := symInner(t, "in")
		inner := vtIface{A: in, C: int(smallInt(t, "c"))}
		v := &vtIface2{A: inner}
		b := []byte(`{"a":{"a":`)
		b = refInner(b, &in)
		b = append(b, `,"c":`...)
		b = refInt(b, int64(inner.C))
		b = append(b, `},"L":`...)
		switch t.Choice("l", 3) {
		case 0:
			b = append(b, "null"...)
		case 1:
			v.L = []interface{}{}
			b = append(b, "[]"...)
		case 2:
			x := int(smallInt(t, "l0"))
			v.L = []interface{}{[]interface{}{[]int{x}}, nil}
			b = append(b, `[[[`...)
			b = refInt(b, int64(x))
			b = append(b, `]],null]`...)
		}
		b = append(b, '}')
		checkMarshal(t, v, b)
	}
}

// ---------------------------------------------------------------- recursive struct with map[string]interface{} (D14)

type vtRecMap struct {
	Next *vtRecMap              `json:"next"`
	M    map[string]interface{} `json:"m"`
	V    int                    `json:"v"`
}

func symMap(t *verifrt.T, name string, b []byte) (map[string]interface{}, []byte) {
	switch t.Choice(name, 3) {
	case 1:
		return map[string]interface{}{}, append(b, "{}"...)
	case 2:
		x := int(smallInt(t, name+"x"))
		b = append(b, `{"k":`...)
		b = refInt(b, int64(x))
		return map[string]interface{}{"k": x}, append(b, '}')
	}
	return nil, append(b, "null"...)
}

// the recursive member comes BEFORE the map member and the nested element's map
// may be non-empty (the shape of recorded finding D14)
func H_TB_recmap(t *verifrt.T) {
	v := &vtRecMap{V: int(smallInt(t, "v"))}
	b := []byte(`{"next":`)
	if t.Choice("next", 2) == 1 {
		v.Next = &vtRecMap{V: 1}
		b = append(b, `{"next":null,"m":`...)
		v.Next.M, b = symMap(t, "nm", b)
		b = append(b, `,"v":1}`...)
	} else {
		b = append(b, "null"...)
	}
	b = append(b, `,"m":`...)
	v.M, b = symMap(t, "m", b)
	b = append(b, `,"v":`...)
	b = refInt(b, int64(v.V))
	b = append(b, '}')
	// (finding D14, a crash for the nested element with a non-empty map, is repaired: no allowance)
	checkMarshal(t, v, b)
}

// ---------------------------------------------------------------- recursive member inside a larger struct, inside an interface frame

// the smallest recursive type: its own program is much shorter than the enclosing one
type vtList struct {
	V    int     `json:"v"`
	Next *vtList `json:"next"`
}

func refList(b []byte, l *vtList) []byte {
	if l == nil {
		return append(b, "null"...)
	}
	b = append(b, `{"v":`...)
	b = refInt(b, int64(l.V))
	b = append(b, `,"next":`...)
	b = refList(b, l.Next)
	return append(b, '}')
}

type vtOuter struct {
	List  *vtList `json:"list"`
	Grid  [][]int `json:"grid"`
	Grid2 [][]int `json:"grid2"`
	Name  string  `json:"name"`
	Tail  int     `json:"tail"`
}

func H_TB_recouter(t *verifrt.T) {
	o := vtOuter{Name: plainString(t, "name", 1), Tail: int(smallInt(t, "tail"))}
	b := []byte(`{"list":`)
	depth := t.Choice("depth", 4)
	if depth == 0 {
		b = append(b, "null"...)
	} else {
		head := &vtList{V: int(smallInt(t, "v"))}
		cur := head
		for i := 1; i < depth; i++ {
			cur.Next = &vtList{V: i}
			cur = cur.Next
		}
		o.List = head
		b = refList(b, head)
	}
	b = append(b, `,"grid":`...)
	switch t.Choice("grid", 3) {
	case 0:
		b = append(b, "null"...)
	case 1:
		o.Grid = [][]int{{1}, {}}
		b = append(b, `[[1],[]]`...)
	case 2:
		x := int(smallInt(t, "g"))
		o.Grid = [][]int{{x, 2}, nil, {3}}
		b = append(b, `[[`...)
		b = refInt(b, int64(x))
		b = append(b, `,2],null,[3]]`...)
	}
	b = append(b, `,"grid2":`...)
	if t.Choice("grid2", 2) == 1 {
		o.Grid2 = [][]int{{4}}
		b = append(b, `[[4]]`...)
	} else {
		b = append(b, "null"...)
	}
	b = append(b, `,"name":`...)
	b = refStr(b, o.Name)
	b = append(b, `,"tail":`...)
	b = refInt(b, int64(o.Tail))
	b = append(b, '}')
	switch t.Choice("frame", 3) {
	case 0:
		checkMarshal(t, &o, b)
	case 1:
		checkMarshal(t, []interface{}{o, "z"}, append(append([]byte{'['}, b...), `,"z"]`...))
	case 2:
		checkMarshal(t, []interface{}{o, 7, &o}, append(append(append(append([]byte{'['}, b...), `,7,`...), b...), ']'))
	}
}
