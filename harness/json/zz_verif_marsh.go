//go:build verif

package json

import (
	"github.com/goccy/go-json/internal/verifref"
	"github.com/goccy/go-json/internal/verifrt"
)

func init() {
	VerifHarnesses["H_TB_marshalers"] = H_TB_marshalers
}

// value-receiver and pointer-receiver marshalers (JSON and text)
type vmVJ struct{ N int }

func (v vmVJ) MarshalJSON() ([]byte, error) {
	return append(append([]byte(`{"vj":[`), verifref.Itoa(int64(v.N))...), `,2]}`...), nil
}

type vmPJ struct{ N int }

func (v *vmPJ) MarshalJSON() ([]byte, error) {
	return append(append([]byte(`{"pj":`), verifref.Itoa(int64(v.N))...), '}'), nil
}

type vmVT struct{ N int }

func (v vmVT) MarshalText() ([]byte, error) {
	return append([]byte("vt<"), verifref.Itoa(int64(v.N))...), nil
}

type vmPT struct{ N int }

func (v *vmPT) MarshalText() ([]byte, error) {
	return append([]byte("pt"), verifref.Itoa(int64(v.N))...), nil
}

type vmHolderM struct {
	VJ  vmVJ            `json:"vj"`
	PVJ *vmVJ           `json:"pvj"`
	PJ  vmPJ            `json:"pj"`
	PPJ *vmPJ           `json:"ppj"`
	VT  vmVT            `json:"vt"`
	PT  vmPT            `json:"pt"`
	PPT *vmPT           `json:"ppt,omitempty"`
	R   RawMessage      `json:"r"`
	MV  map[string]vmPT `json:"mv"`
	MJ  map[string]vmPJ `json:"mj"`
	MK  map[vmVT]int    `json:"mk"`
	SV  []vmVJ          `json:"sv"`
	SP  []*vmPT         `json:"sp"`
}

// Members whose types implement Marshaler / TextMarshaler with value or
// pointer receivers, in every member position (value, pointer, map value, map
// key, slice element), encoded through a pointer to the holder (addressable):
// encoding/json's rules: a pointer-receiver method is used where the value is
// addressable (struct members, slice elements) and NOT for map values.
func H_TB_marshalers(t *verifrt.T) {
	n := int(smallInt(t, "n"))
	num := verifref.Itoa(int64(n))
	h := &vmHolderM{VJ: vmVJ{n}, PJ: vmPJ{n}, VT: vmVT{n}, PT: vmPT{n}, R: RawMessage(`{"a":[1,{"b":null}]}`)}
	b := append(append([]byte(`{"vj":{"vj":[`), num...), `,2]},"pvj":`...)
	if t.Choice("pvj", 2) == 1 {
		h.PVJ = &vmVJ{n}
		b = append(append(append(b, `{"vj":[`...), num...), `,2]}`...)
	} else {
		b = append(b, "null"...)
	}
	b = append(append(append(b, `,"pj":{"pj":`...), num...), `},"ppj":`...)
	if t.Choice("ppj", 2) == 1 {
		h.PPJ = &vmPJ{n}
		b = append(append(append(b, `{"pj":`...), num...), '}')
	} else {
		b = append(b, "null"...)
	}
	b = append(append(append(b, `,"vt":"vt\u003c`...), num...), `","pt":"pt`...)
	b = append(append(b, num...), '"')
	if t.Choice("ppt", 2) == 1 {
		h.PPT = &vmPT{n}
		b = append(append(append(b, `,"ppt":"pt`...), num...), '"')
	}
	b = append(b, `,"r":{"a":[1,{"b":null}]},"mv":`...)
	switch t.Choice("maps", 3) {
	case 0:
		b = append(b, `null,"mj":null,"mk":null`...)
	case 1:
		h.MV, h.MJ, h.MK = map[string]vmPT{}, map[string]vmPJ{}, map[vmVT]int{}
		b = append(b, `{},"mj":{},"mk":{}`...)
	case 2:
		// map values are not addressable: pointer-receiver methods are not used, the struct is encoded by kind
		h.MV, h.MJ, h.MK = map[string]vmPT{"k": {n}}, map[string]vmPJ{"k": {n}}, map[vmVT]int{{n}: 1}
		b = append(append(append(b, `{"k":{"N":`...), num...), `}},"mj":{"k":{"N":`...)
		b = append(append(append(b, num...), `}},"mk":{"vt\u003c`...), num...)
		b = append(b, `":1}`...)
	}
	b = append(b, `,"sv":`...)
	if t.Choice("slices", 2) == 1 {
		h.SV = []vmVJ{{n}, {1}}
		h.SP = []*vmPT{{n}, nil}
		b = append(append(append(b, `[{"vj":[`...), num...), `,2]},{"vj":[1,2]}],"sp":["pt`...)
		b = append(append(b, num...), `",null]`...)
	} else {
		b = append(b, `null,"sp":null`...)
	}
	b = append(b, '}')
	checkMarshal(t, h, b)
}
