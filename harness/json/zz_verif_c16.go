//go:build verif

package json

import (
	"github.com/goccy/go-json/internal/verifref"
	"github.com/goccy/go-json/internal/verifrt"
)

func init() {
	VerifHarnesses["H_C16_string_tag"] = H_C16_string_tag
}

type vsI struct {
	A int64 `json:"a,string"`
	U uint8 `json:"u,string"`
}

// `,string` integers through json.Unmarshal: {"a":"<N free bytes>"} and
// {"u":"<N free bytes>"}: the payload must be exactly one integer literal that
// fits the member; anything else is an error (encoding/json's rule).
func H_C16_string_tag(t *verifrt.T) {
	n := t.Param("N")
	pay := t.Bytes("payload", n)
	for i := range pay {
		// keep the payload inside one string literal: no quote, backslash, control or non-ASCII byte
		t.Assume(verifrt.And(pay[i] >= 0x20, pay[i] < 0x7f, pay[i] != '"', pay[i] != '\\'))
	}
	unsigned := t.Choice("member", 2) == 1
	var doc []byte
	if unsigned {
		doc = append([]byte(`{"u":"`), pay...)
	} else {
		doc = append([]byte(`{"a":"`), pay...)
	}
	doc = append(doc, `"}`...)
	v := vsI{A: 77, U: 77}
	err := Unmarshal(doc, &v)
	accepted := err == nil
	tok := verifref.IntToken(pay)
	whole := verifrt.And(tok.OK, !tok.Null, tok.Start == 0, tok.End == len(pay), !tok.LeadingZero)
	and, or, implies := verifrt.And, verifrt.Or, verifrt.Implies
	t.ObserveBool("accepted", accepted)
	if unsigned {
		val, fits := tok.FitsUint(8)
		valid := and(whole, fits)
		t.Assert("only-one-literal-accepted", implies(accepted, valid))
		t.Assert("valid-payload-accepted", implies(valid, accepted))
		t.Assert("value-exact", implies(and(accepted, valid), uint64(v.U) == val))
		t.Assert("other-member-untouched", v.A == 77)
		_ = or
	} else {
		val, fits := tok.FitsInt(64)
		valid := and(whole, fits)
		t.Assert("only-one-literal-accepted", implies(accepted, valid))
		t.Assert("valid-payload-accepted", implies(valid, accepted))
		t.Assert("value-exact", implies(and(accepted, valid), v.A == val))
		t.Assert("other-member-untouched", v.U == 77)
	}
}
