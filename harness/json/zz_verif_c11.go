//go:build verif

package json

import (
	"bytes"
	"context"

	"github.com/goccy/go-json/internal/verifref"
	"github.com/goccy/go-json/internal/verifrt"
)

func init() {
	VerifHarnesses["H_C11_after_any_call"] = H_C11_after_any_call
	VerifHarnesses["H_C11_handles"] = H_C11_handles
}

type vdS2 struct {
	A int    `json:"a"`
	B string `json:"b"`
	S []int8 `json:"s"`
}

// Results depend only on the arguments: after an ARBITRARY first call (symbolic
// input, any entry point, success or failure at any point) a fixed second call
// returns its fixed answer. Run with POOLREUSE=1: sync.Pool hands the second
// call exactly the context the first call released.
func H_C11_after_any_call(t *verifrt.T) {
	n := t.Param("N")
	first := t.Bytes("first", n)
	switch t.Choice("first-call", 7) {
	case 6:
		// a well-formed first document that fills pooled scratch storage with symbolic values
		d := append([]byte(`{"s":[`), first[0]%8+'1', ',', first[1%len(first)]%8+'1', ',', '7')
		var v vdS2
		Unmarshal(append(d, `],"b":"zz"}`...), &v)
	case 0:
		var v vdS2
		Unmarshal(first, &v)
	case 1:
		var v interface{}
		Unmarshal(first, &v)
	case 2:
		var w bytes.Buffer
		Compact(&w, first)
	case 3:
		var w bytes.Buffer
		Indent(&w, first, ">", "\t")
	case 4:
		in := vtInner{X: int(int8(first[0])), Y: string(first[1:])}
		MarshalIndent(&in, string(first[:1]), "  ")
	case 5:
		Valid(first)
	}
	switch t.Choice("second-call", 6) {
	case 5:
		var v vdS2
		err := Unmarshal([]byte(`{"s":[null,4,null],"a":null}`), &v)
		t.Assert("unmarshal-null-elements-fixed-answer", verifrt.And(err == nil, len(v.S) == 3, v.A == 0))
		if err == nil && len(v.S) == 3 {
			t.Assert("null-elements-are-zero", verifrt.And(v.S[0] == 0, v.S[1] == 4, v.S[2] == 0))
		}
	case 0:
		var v vdS2
		err := Unmarshal([]byte(`{"a":5,"b":"x"}`), &v)
		t.Assert("unmarshal-fixed-answer", verifrt.And(err == nil, v.A == 5, v.B == "x"))
	case 1:
		out, err := Marshal(&vtInner{X: 3, Y: "q"})
		t.Assert("marshal-fixed-answer", verifrt.And(err == nil, verifref.BytesEq(out, []byte(`{"x":3,"y":"q"}`))))
	case 2:
		out, err := MarshalIndent(&vtInner{X: 3}, "", " ")
		t.Assert("marshalindent-fixed-answer", verifrt.And(err == nil, verifref.BytesEq(out, []byte("{\n \"x\": 3\n}"))))
	case 3:
		var w bytes.Buffer
		err := Compact(&w, []byte(` [ 1 , "a" ] `))
		t.Assert("compact-fixed-answer", verifrt.And(err == nil, verifref.BytesEq(w.Bytes(), []byte(`[1,"a"]`))))
	case 4:
		var v interface{}
		err := Unmarshal([]byte(`x`), &v)
		t.Assert("invalid-still-rejected", err != nil)
	}
}

// Per-call options on long-lived handles: an option passed to ONE call of a
// Decoder / Encoder must not change what later calls without the option return.
func H_C11_handles(t *verifrt.T) {
	d0, d1 := t.Byte("d0"), t.Byte("d1")
	t.Assume(verifrt.And(d0 >= '1', d0 <= '9', d1 >= '1', d1 <= '9', d0 != d1))
	switch t.Choice("handle", 2) {
	case 0:
		// two documents with a duplicate key on one Decoder; the first call asks for first-win
		doc := []byte(`{"a":1,"a":2} {"a":`)
		doc = append(doc, d0)
		doc = append(doc, `,"a":`...)
		doc = append(doc, d1)
		doc = append(doc, '}')
		dec := NewDecoder(bytes.NewReader(doc))
		var v1, v2 vdS2
		err1 := dec.DecodeWithOption(&v1, DecodeFieldPriorityFirstWin())
		err2 := dec.Decode(&v2)
		t.Assert("both-decoded", verifrt.And(err1 == nil, err2 == nil))
		t.Assert("first-call-honours-its-option", v1.A == 1)
		t.Assert("second-call-has-default-semantics", v2.A == int(d1-'0'))
	case 1:
		// Encoder: an indent/escape option given to one EncodeWithOption call
		var w bytes.Buffer
		enc := NewEncoder(&w)
		v := &vtInner{X: int(d0 - '0'), Y: "<"}
		err1 := enc.EncodeWithOption(v, DisableHTMLEscape())
		n1 := w.Len()
		err2 := enc.Encode(v)
		t.Assert("both-encoded", verifrt.And(err1 == nil, err2 == nil))
		want, _ := Marshal(v)
		got := w.Bytes()[n1:]
		same := verifref.BytesEq(got, append(append([]byte{}, want...), '\n'))
		t.Assert("second-encode-equals-marshal", same)
	}
}

func init() {
	VerifHarnesses["H_C11_options"] = H_C11_options
}

type voDup struct {
	A int `json:"a"`
}

// An option given to ONE call never changes a later call that does not pass it:
// every option-carrying entry point first, then every plain entry point on
// inputs whose result would differ under the option (duplicate keys for
// first-win; a two-key map and a string with '<' for unordered / colour /
// no-HTML-escape). POOLREUSE=1: the second call gets the first call's context.
func H_C11_options(t *verifrt.T) {
	dupDoc := []byte(`{"a":1,"a":2}`)
	val := map[string]string{"b": "<", "a": "x"}
	switch t.Choice("first-call", 8) {
	case 0:
		var v voDup
		UnmarshalWithOption(dupDoc, &v, DecodeFieldPriorityFirstWin())
	case 1:
		var v voDup
		NewDecoder(bytes.NewReader(dupDoc)).DecodeWithOption(&v, DecodeFieldPriorityFirstWin())
	case 2:
		MarshalWithOption(val, UnorderedMap(), DisableHTMLEscape(), DisableNormalizeUTF8())
	case 3:
		MarshalWithOption(val, Colorize(DefaultColorScheme))
	case 4:
		MarshalIndentWithOption(val, ">", "\t", Colorize(DefaultColorScheme), UnorderedMap())
	case 5:
		var w bytes.Buffer
		e := NewEncoder(&w)
		e.SetEscapeHTML(false)
		e.SetIndent(">", "\t")
		e.EncodeWithOption(val, UnorderedMap())
	case 6:
		MarshalContext(SetFieldQueryToContext(context.Background(), &FieldQuery{Fields: []*FieldQuery{{Name: "a"}}}), &voDup{A: 1})
	case 7:
		var v voDup
		UnmarshalContext(context.Background(), dupDoc, &v, DecodeFieldPriorityFirstWin())
	}
	wantEnc := []byte(`{"a":"x","b":"\u003c"}`)
	switch t.Choice("second-call", 10) {
	case 0:
		var v voDup
		err := Unmarshal(dupDoc, &v)
		t.Assert("unmarshal-last-wins", verifrt.And(err == nil, v.A == 2))
	case 1:
		var v voDup
		err := UnmarshalContext(context.Background(), dupDoc, &v)
		t.Assert("unmarshalcontext-last-wins", verifrt.And(err == nil, v.A == 2))
	case 2:
		var v voDup
		err := UnmarshalNoEscape(dupDoc, &v)
		t.Assert("unmarshalnoescape-last-wins", verifrt.And(err == nil, v.A == 2))
	case 3:
		var v voDup
		err := NewDecoder(bytes.NewReader(dupDoc)).Decode(&v)
		t.Assert("decoder-last-wins", verifrt.And(err == nil, v.A == 2))
	case 4:
		out, err := Marshal(val)
		t.Assert("marshal-default-options", verifrt.And(err == nil, verifref.BytesEq(out, wantEnc)))
	case 5:
		out, err := MarshalNoEscape(val)
		t.Assert("marshalnoescape-default-options", verifrt.And(err == nil, verifref.BytesEq(out, wantEnc)))
	case 6:
		out, err := MarshalIndent(val, "", " ")
		t.Assert("marshalindent-default-options", verifrt.And(err == nil, verifref.BytesEq(out, []byte("{\n \"a\": \"x\",\n \"b\": \"\\u003c\"\n}"))))
	case 7:
		out, err := MarshalContext(context.Background(), val)
		t.Assert("marshalcontext-default-options", verifrt.And(err == nil, verifref.BytesEq(out, wantEnc)))
	case 8:
		var w bytes.Buffer
		err := NewEncoder(&w).Encode(val)
		t.Assert("encoder-default-options", verifrt.And(err == nil, verifref.BytesEq(w.Bytes(), append(append([]byte{}, wantEnc...), '\n'))))
	case 9:
		out, err := Marshal(&voDup{A: 1})
		t.Assert("marshal-unfiltered", verifrt.And(err == nil, verifref.BytesEq(out, []byte(`{"a":1}`))))
	}
}
