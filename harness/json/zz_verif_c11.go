//go:build verif

package json

import (
	"bytes"

	"github.com/goccy/go-json/internal/verifref"
	"github.com/goccy/go-json/internal/verifrt"
)

func init() {
	VerifHarnesses["H_C11_after_any_call"] = H_C11_after_any_call
	VerifHarnesses["H_C11_handles"] = H_C11_handles
}

type vdS2 struct {
	A int    `json:"a"`
	B string `json:"b"`
	S []int8 `json:"s"`
}

// Results depend only on the arguments: after an ARBITRARY first call (symbolic
// input, any entry point, success or failure at any point) a fixed second call
// returns its fixed answer. Run with POOLREUSE=1: sync.Pool hands the second
// call exactly the context the first call released.
func H_C11_after_any_call(t *verifrt.T) {
	n := t.Param("N")
	first := t.Bytes("first", n)
	switch t.Choice("first-call", 7) {
	case 6:
		// a well-formed first document that fills pooled scratch storage with symbolic values
		d := append([]byte(`{"s":[`), first[0]%8+'1', ',', first[1%len(first)]%8+'1', ',', '7')
		var v vdS2
		Unmarshal(append(d, `],"b":"zz"}`...), &v)
	case 0:
		var v vdS2
		Unmarshal(first, &v)
	case 1:
		var v interface{}
		Unmarshal(first, &v)
	case 2:
		var w bytes.Buffer
		Compact(&w, first)
	case 3:
		var w bytes.Buffer
		Indent(&w, first, ">", "\t")
	case 4:
		in := vtInner{X: int(int8(first[0])), Y: string(first[1:])}
		MarshalIndent(&in, string(first[:1]), "  ")
	case 5:
		Valid(first)
	}
	switch t.Choice("second-call", 6) {
	case 5:
		var v vdS2
		err := Unmarshal([]byte(`{"s":[null,4,null],"a":null}`), &v)
		t.Assert("unmarshal-null-elements-fixed-answer", verifrt.And(err == nil, len(v.S) == 3, v.A == 0))
		if err == nil && len(v.S) == 3 {
			t.Assert("null-elements-are-zero", verifrt.And(v.S[0] == 0, v.S[1] == 4, v.S[2] == 0))
		}
	case 0:
		var v vdS2
		err := Unmarshal([]byte(`{"a":5,"b":"x"}`), &v)
		t.Assert("unmarshal-fixed-answer", verifrt.And(err == nil, v.A == 5, v.B == "x"))
	case 1:
		out, err := Marshal(&vtInner{X: 3, Y: "q"})
		t.Assert("marshal-fixed-answer", verifrt.And(err == nil, verifref.BytesEq(out, []byte(`{"x":3,"y":"q"}`))))
	case 2:
		out, err := MarshalIndent(&vtInner{X: 3}, "", " ")
		t.Assert("marshalindent-fixed-answer", verifrt.And(err == nil, verifref.BytesEq(out, []byte("{\n \"x\": 3\n}"))))
	case 3:
		var w bytes.Buffer
		err := Compact(&w, []byte(` [ 1 , "a" ] `))
		t.Assert("compact-fixed-answer", verifrt.And(err == nil, verifref.BytesEq(w.Bytes(), []byte(`[1,"a"]`))))
	case 4:
		var v interface{}
		err := Unmarshal([]byte(`x`), &v)
		t.Assert("invalid-still-rejected", err != nil)
	}
}

// Per-call options on long-lived handles: an option passed to ONE call of a
// Decoder / Encoder must not change what later calls without the option return.
func H_C11_handles(t *verifrt.T) {
	d0, d1 := t.Byte("d0"), t.Byte("d1")
	t.Assume(verifrt.And(d0 >= '1', d0 <= '9', d1 >= '1', d1 <= '9', d0 != d1))
	switch t.Choice("handle", 2) {
	case 0:
		// two documents with a duplicate key on one Decoder; the first call asks for first-win
		doc := []byte(`{"a":1,"a":2} {"a":`)
		doc = append(doc, d0)
		doc = append(doc, `,"a":`...)
		doc = append(doc, d1)
		doc = append(doc, '}')
		dec := NewDecoder(bytes.NewReader(doc))
		var v1, v2 vdS2
		err1 := dec.DecodeWithOption(&v1, DecodeFieldPriorityFirstWin())
		err2 := dec.Decode(&v2)
		t.Assert("both-decoded", verifrt.And(err1 == nil, err2 == nil))
		t.Assert("first-call-honours-its-option", v1.A == 1)
		t.Assert("second-call-has-default-semantics", v2.A == int(d1-'0'))
	case 1:
		// Encoder: an indent/escape option given to one EncodeWithOption call
		var w bytes.Buffer
		enc := NewEncoder(&w)
		v := &vtInner{X: int(d0 - '0'), Y: "<"}
		err1 := enc.EncodeWithOption(v, DisableHTMLEscape())
		n1 := w.Len()
		err2 := enc.Encode(v)
		t.Assert("both-encoded", verifrt.And(err1 == nil, err2 == nil))
		want, _ := Marshal(v)
		got := w.Bytes()[n1:]
		same := verifref.BytesEq(got, append(append([]byte{}, want...), '\n'))
		t.Assert("second-encode-equals-marshal", same)
	}
}
