//go:build verif

package json

import (
	"bytes"

	"github.com/goccy/go-json/internal/verifref"
	"github.com/goccy/go-json/internal/verifrt"
)

func init() {
	VerifHarnesses["H_C11_after_any_call"] = H_C11_after_any_call
}

type vdS2 struct {
	A int    `json:"a"`
	B string `json:"b"`
	S []int8 `json:"s"`
}

// Results depend only on the arguments: after an ARBITRARY first call (symbolic
// input, any entry point, success or failure at any point) a fixed second call
// returns its fixed answer. Run with POOLREUSE=1: sync.Pool hands the second
// call exactly the context the first call released.
func H_C11_after_any_call(t *verifrt.T) {
	n := t.Param("N")
	first := t.Bytes("first", n)
	switch t.Choice("first-call", 7) {
	case 6:
		// a well-formed first document that fills pooled scratch storage with symbolic values
		d := append([]byte(`{"s":[`), first[0]%8+'1', ',', first[1%len(first)]%8+'1', ',', '7')
		var v vdS2
		Unmarshal(append(d, `],"b":"zz"}`...), &v)
	case 0:
		var v vdS2
		Unmarshal(first, &v)
	case 1:
		var v interface{}
		Unmarshal(first, &v)
	case 2:
		var w bytes.Buffer
		Compact(&w, first)
	case 3:
		var w bytes.Buffer
		Indent(&w, first, ">", "\t")
	case 4:
		in := vtInner{X: int(int8(first[0])), Y: string(first[1:])}
		MarshalIndent(&in, string(first[:1]), "  ")
	case 5:
		Valid(first)
	}
	switch t.Choice("second-call", 6) {
	case 5:
		var v vdS2
		err := Unmarshal([]byte(`{"s":[null,4,null],"a":null}`), &v)
		t.Assert("unmarshal-null-elements-fixed-answer", verifrt.And(err == nil, len(v.S) == 3, v.A == 0))
		if err == nil && len(v.S) == 3 {
			t.Assert("null-elements-are-zero", verifrt.And(v.S[0] == 0, v.S[1] == 4, v.S[2] == 0))
		}
	case 0:
		var v vdS2
		err := Unmarshal([]byte(`{"a":5,"b":"x"}`), &v)
		t.Assert("unmarshal-fixed-answer", verifrt.And(err == nil, v.A == 5, v.B == "x"))
	case 1:
		out, err := Marshal(&vtInner{X: 3, Y: "q"})
		t.Assert("marshal-fixed-answer", verifrt.And(err == nil, verifref.BytesEq(out, []byte(`{"x":3,"y":"q"}`))))
	case 2:
		out, err := MarshalIndent(&vtInner{X: 3}, "", " ")
		t.Assert("marshalindent-fixed-answer", verifrt.And(err == nil, verifref.BytesEq(out, []byte("{\n \"x\": 3\n}"))))
	case 3:
		var w bytes.Buffer
		err := Compact(&w, []byte(` [ 1 , "a" ] `))
		t.Assert("compact-fixed-answer", verifrt.And(err == nil, verifref.BytesEq(w.Bytes(), []byte(`[1,"a"]`))))
	case 4:
		var v interface{}
		err := Unmarshal([]byte(`x`), &v)
		t.Assert("invalid-still-rejected", err != nil)
	}
}
