//go:build verif

package json

import (
	"math"

	"github.com/goccy/go-json/internal/verifref"
	"github.com/goccy/go-json/internal/verifrt"
)

func init() {
	VerifHarnesses["H_C16_map_keys"] = H_C16_map_keys
}

// Integer map keys of every kind at the extremes of their range (and a symbolic
// small value): the key text is the exact decimal text and decodes back to the
// same key.
func H_C16_map_keys(t *verifrt.T) {
	small := smallInt(t, "small")
	which := t.Choice("which", 3) // min, max, small
	pickI := func(min, max int64) int64 { return []int64{min, max, small}[which] }
	pickU := func(max uint64) uint64 {
		sm := small
		if sm < 0 {
			sm = -sm
		}
		return []uint64{0, max, uint64(sm)}[which]
	}
	check := func(out []byte, err error, want []byte) {
		t.Assert("marshal-ok", err == nil)
		t.ObserveBytes("out", out)
		t.Assert("key-text-exact", verifref.BytesEq(out, want))
	}
	wrapI := func(v int64) []byte { return append(append([]byte(`{"`), verifref.Itoa(v)...), `":1}`...) }
	wrapU := func(v uint64) []byte { return append(append([]byte(`{"`), verifref.Utoa(v)...), `":1}`...) }
	switch t.Choice("kind", 11) {
	case 0:
		k := int8(pickI(math.MinInt8, math.MaxInt8))
		out, err := Marshal(map[int8]int{k: 1})
		check(out, err, wrapI(int64(k)))
		var m map[int8]int
		t.Assert("decodes-back", verifrt.And(Unmarshal(out, &m) == nil, len(m) == 1, m[k] == 1))
	case 1:
		k := int16(pickI(math.MinInt16, math.MaxInt16))
		out, err := Marshal(map[int16]int{k: 1})
		check(out, err, wrapI(int64(k)))
		var m map[int16]int
		t.Assert("decodes-back", verifrt.And(Unmarshal(out, &m) == nil, len(m) == 1, m[k] == 1))
	case 2:
		k := int32(pickI(math.MinInt32, math.MaxInt32))
		out, err := Marshal(map[int32]int{k: 1})
		check(out, err, wrapI(int64(k)))
		var m map[int32]int
		t.Assert("decodes-back", verifrt.And(Unmarshal(out, &m) == nil, len(m) == 1, m[k] == 1))
	case 3:
		k := pickI(math.MinInt64, math.MaxInt64)
		out, err := Marshal(map[int64]int{k: 1})
		check(out, err, wrapI(k))
		var m map[int64]int
		t.Assert("decodes-back", verifrt.And(Unmarshal(out, &m) == nil, len(m) == 1, m[k] == 1))
	case 4:
		k := int(pickI(math.MinInt64, math.MaxInt64))
		out, err := Marshal(map[int]int{k: 1})
		check(out, err, wrapI(int64(k)))
		var m map[int]int
		t.Assert("decodes-back", verifrt.And(Unmarshal(out, &m) == nil, len(m) == 1, m[k] == 1))
	case 5:
		k := uint8(pickU(math.MaxUint8))
		out, err := Marshal(map[uint8]int{k: 1})
		check(out, err, wrapU(uint64(k)))
		var m map[uint8]int
		t.Assert("decodes-back", verifrt.And(Unmarshal(out, &m) == nil, len(m) == 1, m[k] == 1))
	case 6:
		k := uint16(pickU(math.MaxUint16))
		out, err := Marshal(map[uint16]int{k: 1})
		check(out, err, wrapU(uint64(k)))
		var m map[uint16]int
		t.Assert("decodes-back", verifrt.And(Unmarshal(out, &m) == nil, len(m) == 1, m[k] == 1))
	case 7:
		k := uint32(pickU(math.MaxUint32))
		out, err := Marshal(map[uint32]int{k: 1})
		check(out, err, wrapU(uint64(k)))
		var m map[uint32]int
		t.Assert("decodes-back", verifrt.And(Unmarshal(out, &m) == nil, len(m) == 1, m[k] == 1))
	case 8:
		k := pickU(math.MaxUint64)
		out, err := Marshal(map[uint64]int{k: 1})
		check(out, err, wrapU(k))
		var m map[uint64]int
		t.Assert("decodes-back", verifrt.And(Unmarshal(out, &m) == nil, len(m) == 1, m[k] == 1))
	case 9:
		k := uint(pickU(math.MaxUint64))
		out, err := Marshal(map[uint]int{k: 1})
		check(out, err, wrapU(uint64(k)))
		var m map[uint]int
		t.Assert("decodes-back", verifrt.And(Unmarshal(out, &m) == nil, len(m) == 1, m[k] == 1))
	case 10:
		k := uintptr(pickU(math.MaxUint64))
		out, err := Marshal(map[uintptr]int{k: 1})
		check(out, err, wrapU(uint64(k)))
		var m map[uintptr]int
		t.Assert("decodes-back", verifrt.And(Unmarshal(out, &m) == nil, len(m) == 1, m[k] == 1))
	}
}
