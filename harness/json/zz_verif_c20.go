//go:build verif

package json

import (
	"github.com/goccy/go-json/internal/verifref"
	"github.com/goccy/go-json/internal/verifrt"
)

func init() {
	VerifHarnesses["H_C20_builder_total"] = H_C20_builder_total
	VerifHarnesses["H_C20_extract_child"] = H_C20_extract_child
	VerifHarnesses["H_C20_purity"] = H_C20_purity
}

var c20Alpha = []byte("$.[]*'\"01ab ")

// O20.1: CreatePath is total on every path text of N characters over the
// path alphabet: it returns a path or an error, never panics or reads out of
// bounds; an accepted path prints and re-parses.
func H_C20_builder_total(t *verifrt.T) {
	n := t.Param("N")
	txt := make([]byte, n)
	for i := range txt {
		txt[i] = c20Alpha[t.Choice("ch", len(c20Alpha))]
	}
	p, err := CreatePath(string(txt))
	t.ObserveBool("ok", err == nil)
	if err == nil {
		t.Assert("non-nil-path", p != nil)
		_ = p.PathString()
		t.Cover("accepted", true)
	} else {
		t.Cover("rejected", true)
	}
}

// O20.2 (child selectors): $.a and $.a.b on documents {"a":<v>} / {"a":{"b":<v>}}
// with a symbolic scalar value token: the extracted bytes are the value token.
func H_C20_extract_child(t *verifrt.T) {
	n := t.Param("N")
	val := t.Bytes("val", n)
	for i := range val {
		// one JSON scalar token: digits (no leading-zero issue: first digit 1-9)
		if i == 0 {
			t.Assume(verifrt.And(val[i] >= '1', val[i] <= '9'))
		} else {
			t.Assume(verifrt.And(val[i] >= '0', val[i] <= '9'))
		}
	}
	nested := t.Choice("nested", 2) == 1
	ws := []string{"", " "}[t.Choice("ws", 2)]
	var doc []byte
	var path string
	if nested {
		doc = append([]byte(`{"x":[1,{"a":2}],"a":{"c":"b","b":`+ws), val...)
		doc = append(doc, `}}`...)
		path = "$.a.b"
	} else {
		// a sibling whose one-letter name is symbolic (any letter but the selected one)
		k := t.Byte("sibling")
		t.Assume(verifrt.And(verifrt.Or(verifrt.And(k >= 'A', k <= 'Z'), verifrt.And(k >= 'a', k <= 'z')), k != 'a'))
		doc = append([]byte(`{"`), k)
		doc = append(doc, `":0,"a":`+ws...)
		doc = append(doc, val...)
		doc = append(doc, `,"c":[]}`...)
		path = "$.a"
	}
	p, err := CreatePath(path)
	t.Assert("path-builds", err == nil)
	out, err := p.Extract(doc)
	t.Assert("extract-succeeds", err == nil)
	t.Assert("one-result", len(out) == 1)
	if len(out) == 1 {
		got := out[0]
		// the extracted span may carry the surrounding whitespace of the member value
		for len(got) > 0 && got[0] == ' ' {
			got = got[1:]
		}
		t.Assert("extracts-the-member-value", verifref.BytesEq(got, val))
	}
}

// O20.3: Extract is a pure function of (path, document): after an arbitrary
// first Extract on the same Path (which may fail anywhere), extracting from a
// fixed document gives the fixed answer.
func H_C20_purity(t *verifrt.T) {
	p, err := CreatePath("$.a.b")
	t.Assert("path-builds", err == nil)
	n := t.Param("N")
	if t.Choice("order", 2) == 0 {
		// arbitrary first document, then a fixed (longer) one
		first := t.Bytes("first", n)
		_, err1 := p.Extract(first)
		out, err2 := p.Extract([]byte(`{"a":{"b":1}}`))
		ok := err2 == nil && len(out) == 1 && string(out[0]) == "1"
		t.Assert("second-extract-independent-of-first", ok)
		t.Cover("first-failed", err1 != nil)
		t.Cover("first-succeeded", err1 == nil)
		return
	}
	// a long document first, then an arbitrary SHORTER one: the reused Path must answer like a
	// fresh Path, and what the first call returned must stay as it was
	q, _ := CreatePath("$.a.b")
	out1, err1 := p.Extract([]byte(`{"a":{"b":[1,2,3,4,5,6,7,8,9]}}`))
	t.Assert("long-document-extracted", verifrt.And(err1 == nil, len(out1) == 1))
	var keep []byte
	if len(out1) == 1 {
		keep = append(keep, out1[0]...)
	}
	second := t.Bytes("second", n)
	same := append([]byte{}, second...)
	outA, errA := p.Extract(second)
	outB, errB := q.Extract(same)
	t.Assert("reused-path-answers-like-a-fresh-one", verifrt.And((errA == nil) == (errB == nil), len(outA) == len(outB)))
	if errA == nil && errB == nil && len(outA) == len(outB) {
		for i := range outA {
			t.Assert("reused-path-answers-like-a-fresh-one", verifref.BytesEq(outA[i], outB[i]))
		}
	}
	if len(out1) == 1 {
		t.Assert("earlier-result-unchanged", verifref.BytesEq(out1[0], keep))
	}
}
