//go:build verif

package json

import (
	"github.com/goccy/go-json/internal/verifref"
	"github.com/goccy/go-json/internal/verifrt"
)

func init() {
	VerifHarnesses["H_C14_programs"] = H_C14_programs
}

// two mutually recursive struct types whose first fields have the same type
type vpDept struct {
	Name    string
	Budget  int
	Manager *vpEmp
	Sub     *vpDept
}

type vpEmp struct {
	Nick  string
	Age   int
	Dept  *vpDept
	Buddy *vpEmp
}

type vpEsc struct {
	V    int    `json:"v<"`
	Next *vpEsc `json:"n&"`
}

func refDept(b []byte, d *vpDept) []byte {
	if d == nil {
		return append(b, "null"...)
	}
	b = append(b, `{"Name":`...)
	b = refStr(b, d.Name)
	b = append(b, `,"Budget":`...)
	b = refInt(b, int64(d.Budget))
	b = append(b, `,"Manager":`...)
	b = refEmp(b, d.Manager)
	b = append(b, `,"Sub":`...)
	b = refDept(b, d.Sub)
	return append(b, '}')
}

func refEmp(b []byte, e *vpEmp) []byte {
	if e == nil {
		return append(b, "null"...)
	}
	b = append(b, `{"Nick":`...)
	b = refStr(b, e.Nick)
	b = append(b, `,"Age":`...)
	b = refInt(b, int64(e.Age))
	b = append(b, `,"Dept":`...)
	b = refDept(b, e.Dept)
	b = append(b, `,"Buddy":`...)
	b = refEmp(b, e.Buddy)
	return append(b, '}')
}

// two distinct types that print the same (both are "json.vpLocal")
func vpLocalA(n int64) (interface{}, []byte) {
	type vpLocal struct {
		Count int  `json:"count"`
		Flag  bool `json:"flag"`
	}
	b := append([]byte(`{"count":`), verifref.Itoa(n)...)
	return &vpLocal{Count: int(n), Flag: true}, append(b, `,"flag":true}`...)
}

func vpLocalB(n int64) (interface{}, []byte) {
	type vpLocal struct {
		Label string `json:"label"`
		N     int8   `json:"n"`
	}
	b := append([]byte(`{"label":"hello","n":`), verifref.Itoa(n)...)
	return &vpLocal{Label: "hello", N: int8(n)}, append(b, '}')
}

// Behavioural side of C14: whatever the request order, every value is encoded
// (and decoded) by the program of its own type — also inside the linked opcode
// graph of mutually recursive types and for distinct types with equal names.
func H_C14_programs(t *verifrt.T) {
	n := smallInt(t, "n")
	switch t.Choice("family", 3) {
	case 2:
		// a recursive type whose keys need HTML escaping: every level is encoded by the code set
		// of the requested escaping mode (the recursion links exist once per mode)
		v := &vpEsc{V: int(n), Next: &vpEsc{V: 2, Next: &vpEsc{V: 3}}}
		num := verifref.Itoa(n)
		rawWant := append(append([]byte(`{"v<":`), num...), `,"n&":{"v<":2,"n&":{"v<":3,"n&":null}}}`...)
		escWant := append(append([]byte(`{"v\u003c":`), num...), `,"n\u0026":{"v\u003c":2,"n\u0026":{"v\u003c":3,"n\u0026":null}}}`...)
		first := t.Choice("first-mode", 2)
		for i := 0; i < 2; i++ {
			if (i == 0) == (first == 0) {
				out, err := MarshalWithOption(v, DisableHTMLEscape())
				t.Assert("marshal-ok", err == nil)
				t.Assert("no-escape-mode-at-every-level", verifref.BytesEq(out, rawWant))
			} else {
				out, err := Marshal(v)
				t.Assert("marshal-ok", err == nil)
				t.ObserveBytes("out", out)
				t.Assert("escape-mode-at-every-level", verifref.BytesEq(out, escWant))
			}
		}
	case 0:
		// shape of the mutually recursive value: each optional link present or nil
		mk := func(name string, depth int) *vpDept { return &vpDept{Name: name, Budget: int(n) + depth} }
		v := mk("root", 0)
		if t.Choice("manager", 2) == 1 {
			v.Manager = &vpEmp{Nick: "bob", Age: 42}
			if t.Choice("manager-dept", 2) == 1 {
				v.Manager.Dept = mk("inner", 1)
			}
			if t.Choice("manager-buddy", 2) == 1 {
				v.Manager.Buddy = &vpEmp{Nick: "al", Age: int(n)}
			}
		}
		if t.Choice("sub", 2) == 1 {
			v.Sub = mk("sub", 2)
			if t.Choice("sub-manager", 2) == 1 {
				v.Sub.Manager = &vpEmp{Nick: "carol", Age: 29}
			}
		}
		var first interface{} = v
		if t.Choice("order", 2) == 1 {
			// the other type of the cycle is requested first
			e := &vpEmp{Nick: "x", Age: 1, Dept: mk("d", 3)}
			out, err := Marshal(e)
			t.Assert("marshal-ok", err == nil)
			t.Assert("employee-by-its-own-program", verifref.BytesEq(out, refEmp(nil, e)))
		}
		out, err := Marshal(first)
		t.Assert("marshal-ok", err == nil)
		t.ObserveBytes("out", out)
		t.Assert("dept-by-its-own-program", verifref.BytesEq(out, refDept(nil, v)))
		// decoding: the same graph back through the decoder programs
		var w vpDept
		err = Unmarshal(out, &w)
		t.Assert("unmarshal-ok", err == nil)
		out2, err := Marshal(&w)
		t.Assert("round-trip-by-own-programs", verifrt.And(err == nil, verifref.BytesEq(out2, out)))
	case 1:
		a, wantA := vpLocalA(n)
		b, wantB := vpLocalB(n)
		if t.Choice("order", 2) == 1 {
			a, b, wantA, wantB = b, a, wantB, wantA
		}
		outA, errA := Marshal(a)
		outB, errB := Marshal(b)
		outA2, errA2 := Marshal(a)
		t.Assert("marshal-ok", verifrt.And(errA == nil, errB == nil, errA2 == nil))
		t.ObserveBytes("outB", outB)
		t.Assert("same-named-type-first", verifref.BytesEq(outA, wantA))
		t.Assert("same-named-type-second", verifref.BytesEq(outB, wantB))
		t.Assert("same-named-type-again", verifref.BytesEq(outA2, wantA))
		// decoder side: each into its own type
		errA = Unmarshal(wantA, a)
		errB = Unmarshal(wantB, b)
		outA, _ = Marshal(a)
		outB, _ = Marshal(b)
		t.Assert("decode-same-named-types", verifrt.And(errA == nil, errB == nil, verifref.BytesEq(outA, wantA), verifref.BytesEq(outB, wantB)))
	}
}
