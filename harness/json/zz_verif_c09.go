//go:build verif

package json

import (
	"github.com/goccy/go-json/internal/verifref"
	"github.com/goccy/go-json/internal/verifrt"
)

func init() {
	VerifHarnesses["H_C09_public_numbers"] = H_C09_public_numbers
}

// Through the public entry points: for every VALID number text of N bytes over
// [0-9 - . e E] (optionally surrounded by a space) and integer / float
// destinations, Decoder.Decode (input delivered in two reads, every cut) gives
// the verdict and the value of Unmarshal.
func H_C09_public_numbers(t *verifrt.T) {
	n := t.Param("N")
	doc := t.Bytes("doc", n)
	for i := range doc {
		c := doc[i]
		t.Assume(verifrt.Or(verifrt.And(c >= '0', c <= '9'), c == '-', c == '.', c == 'e', c == 'E', c == ' '))
	}
	t.Assume(verifref.ValidJSON(doc, verifref.Relax{}))
	cut := t.Choice("cut", n+1)
	same := append([]byte{}, doc...)
	switch t.Choice("target", 4) {
	case 0:
		var a, b int
		eu := Unmarshal(doc, &a)
		ed := NewDecoder(&c12Chunks{data: same, cut: cut}).Decode(&b)
		t.Assert("same-verdict", (eu == nil) == (ed == nil))
		t.Assert("same-value", verifrt.Implies(verifrt.And(eu == nil, ed == nil), a == b))
	case 1:
		var a, b uint8
		eu := Unmarshal(doc, &a)
		ed := NewDecoder(&c12Chunks{data: same, cut: cut}).Decode(&b)
		t.Assert("same-verdict", (eu == nil) == (ed == nil))
		t.Assert("same-value", verifrt.Implies(verifrt.And(eu == nil, ed == nil), a == b))
	case 2:
		var a, b *int16
		eu := Unmarshal(doc, &a)
		ed := NewDecoder(&c12Chunks{data: same, cut: cut}).Decode(&b)
		t.Assert("same-verdict", (eu == nil) == (ed == nil))
		if eu == nil && ed == nil {
			t.Assert("same-value", verifrt.And((a == nil) == (b == nil), a == nil || b == nil || *a == *b))
		}
	case 3:
		var a, b interface{}
		eu := Unmarshal(doc, &a)
		ed := NewDecoder(&c12Chunks{data: same, cut: cut}).Decode(&b)
		t.Assert("same-verdict", (eu == nil) == (ed == nil))
	}
}
