//go:build verif

package json

import (
	"bytes"
	"unsafe"

	"github.com/goccy/go-json/internal/verifref"
	"github.com/goccy/go-json/internal/verifrt"
)

func init() {
	VerifHarnesses["H_C15_keys"] = H_C15_keys
	VerifHarnesses["H_C07_array_neighbours"] = H_C07_array_neighbours
	VerifHarnesses["H_C12_alias"] = H_C12_alias
	VerifHarnesses["H_C12_stream_alias"] = H_C12_stream_alias
	VerifHarnesses["H_C04_roundtrip"] = H_C04_roundtrip
	VerifHarnesses["H_C05_skipped_member"] = H_C05_skipped_member
	VerifHarnesses["H_C05_unmarshal_iface"] = H_C05_unmarshal_iface
}

// ---------------------------------------------------------------- C15: keys select fields

type vkA struct {
	F0 int `json:"a"`
	F1 int `json:"ab"`
	F2 int `json:"Ab"`
	F3 int `json:"a/b"`
	F4 int `json:"b_1"`
}

var vkANames = []string{"a", "ab", "Ab", "a/b", "b_1"}

// no two names equal under case folding: the bitmap key decoder is selected
type vkB struct {
	F0 int `json:"a"`
	F1 int `json:"ab"`
	F2 int `json:"Cd"`
	F3 int `json:"a/b"`
	F4 int `json:"b_1"`
}

var vkBNames = []string{"a", "ab", "Cd", "a/b", "b_1"}

// nine members: the 16-bit key bitmap is selected
type vkC struct {
	F0 int `json:"a"`
	F1 int `json:"ab"`
	F2 int `json:"Cd"`
	F3 int `json:"a/b"`
	F4 int `json:"b_1"`
	F5 int `json:"c"`
	F6 int `json:"dd"`
	F7 int `json:"e"`
	F8 int `json:"f"`
}

var vkCNames = []string{"a", "ab", "Cd", "a/b", "b_1", "c", "dd", "e", "f"}

// the document is {"<key>":7} with a fully symbolic key literal body of K bytes
// (raw bytes, simple escapes and \u escapes all arise from the free bytes).
func H_C15_keys(t *verifrt.T) {
	var key []byte
	if units := t.Param("UNITS"); units > 0 {
		// unit family: each unit is a symbolic byte, a backslash + symbolic byte, or \u00 + two symbolic bytes
		nu := 1 + t.Choice("units", units)
		for u := 0; u < nu; u++ {
			switch t.Choice("unit", 4) {
			case 3: // a surrogate escape: \ud8hh / \udChh with symbolic low byte
				key = append(key, '\\', 'u', 'd', []byte{'8', 'c'}[t.Choice("sur", 2)], t.Byte("s0"), t.Byte("s1"))
			case 0:
				key = append(key, t.Byte("c"))
			case 1:
				key = append(key, '\\', t.Byte("e"))
			case 2:
				key = append(key, '\\', 'u', '0', '0', t.Byte("h0"), t.Byte("h1"))
			}
		}
	} else {
		k := 1 + t.Choice("klen", t.Param("K"))
		key = t.Bytes("key", k)
	}
	doc := append([]byte(`{"`), key...)
	if t.Param("TRUNC") == 1 {
		// the input ends inside the key: only safety is at stake (C06)
		// (no verdict is asserted: free key bytes can themselves complete the document)
		var v vkB
		err := Unmarshal(doc, &v)
		t.ObserveBool("rejected", err != nil)
		return
	}
	doc = append(doc, `":7}`...)
	lit := append(append([]byte{'"'}, key...), '"')
	tok := verifref.StringLiteral(lit)
	var got []int
	var err error
	names := vkANames
	mapPath := true
	streamRoute := false
	nstruct := t.ParamOr("NSTRUCT", 3)
	if t.ParamOr("UNITS", 0) > 0 {
		nstruct = 2 // the escape-unit family runs on the first two structs (the nine-member one: free-byte family)
	}
	switch t.Choice("struct", nstruct) {
	case 0:
		var v vkA
		err = Unmarshal(doc, &v)
		got = []int{v.F0, v.F1, v.F2, v.F3, v.F4}
	case 1:
		var v vkB
		err = Unmarshal(doc, &v)
		got = []int{v.F0, v.F1, v.F2, v.F3, v.F4}
		names = vkBNames
		mapPath = false
	case 2:
		var v vkC
		if t.Choice("route", 2) == 1 {
			// the stream-mode key decoders
			streamRoute = true
			err = NewDecoder(bytes.NewReader(doc)).Decode(&v)
		} else {
			err = Unmarshal(doc, &v)
		}
		got = []int{v.F0, v.F1, v.F2, v.F3, v.F4, v.F5, v.F6, v.F7, v.F8}
		names = vkCNames
		mapPath = false
	}
	t.ObserveBool("ok", err == nil)
	// whatever the key bytes are: a document that Unmarshal accepts is a valid one (a Decoder reads
	// one value and leaves what follows for the next call, so the claim is not made for that route)
	if t.ParamOr("UNITS", 0) == 0 && !streamRoute {
		t.Assert("accepted-only-valid-document", verifrt.Implies(err == nil, verifref.ValidJSON(doc, verifref.Relax{})))
	}
	// only keys that are one well-formed literal spanning the whole body are in scope
	// (a quote inside the body changes the document shape: covered by C05)
	inScope := verifrt.And(tok.OK, tok.End == len(lit), !tok.BadUTF8)
	if !inScope {
		return
	}
	want := verifref.FieldFor(names, tok.Value)
	t.Assert("valid-document-accepted", err == nil)
	_ = mapPath
	for i := 0; i < len(got); i++ {
		if i == want {
			t.Assert("selected-field-assigned", got[i] == 7)
		} else {
			t.Assert("other-fields-untouched", got[i] == 0)
		}
	}
	t.Cover("matched-exact", want >= 0)
	t.Cover("matched-none", want < 0)
	t.Cover("escaped-key", tok.Escaped)
}

// ---------------------------------------------------------------- C07: only the destination is written

type vaT struct {
	Before uint32
	Arr    [3]uint8
	After  [5]uint8
	S      []int8
	Tail   uint64
}

func H_C07_array_neighbours(t *verifrt.T) {
	// {"Arr":[e0,e1,...]} with 0..4 one-digit elements, or null
	v := vaT{Before: 0xdeadbeef, After: [5]uint8{0xa1, 0xa2, 0xa3, 0xa4, 0xa5}, Tail: 0x1122334455667788}
	v.Arr = [3]uint8{t.Byte("i0"), t.Byte("i1"), t.Byte("i2")}
	init := v.Arr
	doc := []byte(`{"Arr":`)
	n := t.Choice("elems", 6)
	if n == 5 {
		doc = append(doc, "null"...)
	} else {
		doc = append(doc, '[')
		for i := 0; i < n; i++ {
			if i > 0 {
				doc = append(doc, ',')
			}
			d := t.Byte("d")
			t.Assume(verifrt.And(d >= '0', d <= '9'))
			doc = append(doc, d)
		}
		doc = append(doc, ']')
	}
	doc = append(doc, '}')
	err := Unmarshal(doc, &v)
	t.Assert("accepted", err == nil)
	t.Assert("field-before-untouched", v.Before == 0xdeadbeef)
	t.Assert("field-after-untouched", v.After == [5]uint8{0xa1, 0xa2, 0xa3, 0xa4, 0xa5})
	t.Assert("tail-untouched", v.Tail == 0x1122334455667788)
	t.Assert("slice-header-untouched", v.S == nil)
	if n == 5 {
		t.Assert("null-leaves-array", v.Arr == init)
	} else {
		for i := 0; i < 3; i++ {
			if i < n {
				t.Assert("element-decoded", v.Arr[i] == doc[8+2*i]-'0')
			} else {
				t.Assert("missing-elements-zeroed", v.Arr[i] == 0)
			}
		}
	}
}

// ---------------------------------------------------------------- C12: no aliasing with caller data

type vsT struct {
	S string     `json:"s"`
	R RawMessage `json:"r"`
	B []byte     `json:"b"`
}

func H_C12_alias(t *verifrt.T) {
	n := t.Param("N")
	body := t.Bytes("body", n)
	for i := range body {
		// keep the member a plain string literal: one class per byte
		t.Assume(verifrt.And(body[i] >= 'a', body[i] <= 'z'))
	}
	// the base64 member comes first: the other members' text lies behind it in the input
	data := append([]byte(`{"b":"QUJD","s":"`), body...)
	data = append(data, `","r":[1]}`...)
	slack := t.Choice("cap-slack", 2)
	buf := make([]byte, len(data), len(data)+slack)
	copy(buf, data)
	t.Track(unsafe.Pointer(&buf[0]), cap(buf))
	var v vsT
	err := Unmarshal(buf, &v)
	t.Assert("accepted", err == nil)
	t.Assert("input-unchanged", verifref.BytesEq(buf, data))
	if slack == 1 {
		t.Assert("spare-capacity-unchanged", buf[:len(buf)+1][len(buf)] == 0)
	}
	t.Assert("string-value", v.S == string(body))
	if n > 0 {
		t.Assert("string-not-aliasing-input", !t.SameObject(*(*unsafe.Pointer)(unsafe.Pointer(&v.S)), unsafe.Pointer(&buf[0])))
	}
	t.Assert("raw-value", string(v.R) == "[1]")
	t.Assert("raw-not-aliasing-input", !t.SameObject(unsafe.Pointer(&v.R[0]), unsafe.Pointer(&buf[0])))
	// the base64 member is the caller's own memory up to its capacity: writing all of it
	// does not disturb the other results
	t.Assert("bytes-value", string(v.B) == "ABC")
	full := v.B[:cap(v.B)]
	for i := range full {
		full[i] = '#'
	}
	t.Assert("results-independent-of-writes-to-the-bytes-member", verifrt.And(v.S == string(body), string(v.R) == "[1]"))
	if len(v.B) > 0 && n > 0 {
		t.Assert("bytes-not-aliasing-input", !t.SameObject(unsafe.Pointer(&v.B[0]), unsafe.Pointer(&buf[0])))
	}
	v.B = nil
	// marshal side: the returned slice is not the pooled buffer: a second Marshal must not change the first result
	out1, err1 := Marshal(&v)
	keep := append([]byte{}, out1...)
	_, err2 := Marshal(&vtInner{X: 3, Y: "zzzzzzzzzzzzzzzzzzzzzzzzzzzz"})
	t.Assert("marshal-ok", verifrt.And(err1 == nil, err2 == nil))
	t.Assert("first-result-stable", verifref.BytesEq(out1, keep))
}

// ---------------------------------------------------------------- C04: round trip

func H_C04_roundtrip(t *verifrt.T) {
	if t.Choice("type", 2) == 1 {
		// tagged members: omitempty / string pointers, middle positions
		v := &vtTags{S: plainString(t, "s", 1), BS: t.Choice("bs", 2) == 1, A: vtI16[t.Choice("a", 4)]}
		if t.Choice("ps", 2) == 1 {
			x := int8(smallInt(t, "psv"))
			v.PS = &x
		}
		if t.Choice("po", 2) == 1 {
			x := int8(t.Choice("pov", 2))
			v.PO = &x
		}
		if t.Choice("last", 2) == 1 {
			x := vtI16[1+t.Choice("lastv", 2)*2]
			v.Last = &x
		}
		out, err := Marshal(v)
		t.Assert("marshal-ok", err == nil)
		var w vtTags
		err = Unmarshal(out, &w)
		t.Assert("unmarshal-ok", err == nil)
		t.Assert("tagged-scalars", verifrt.And(w.S == v.S, w.BS == v.BS, w.A == v.A))
		t.Assert("tagged-pointer-nilness", verifrt.And((w.PS == nil) == (v.PS == nil), (w.PO == nil) == (v.PO == nil), (w.Last == nil) == (v.Last == nil)))
		if v.PS != nil && w.PS != nil {
			t.Assert("tagged-pointer-values", *w.PS == *v.PS)
		}
		if v.PO != nil && w.PO != nil {
			t.Assert("tagged-pointer-values", *w.PO == *v.PO)
		}
		if v.Last != nil && w.Last != nil {
			t.Assert("tagged-pointer-values", *w.Last == *v.Last)
		}
		return
	}
	v := &vtScalars{I8: int8(smallInt(t, "i8")), U16: uint16(smallUint(t, "u16")), I64: smallInt(t, "i64"), B: t.Bool("b"),
		S: symString(t, "s", 1), OB: t.Bool("ob")}
	if t.Choice("ps", 2) == 1 {
		s := plainString(t, "ps", 1)
		v.PS = &s
	}
	if t.Choice("pi", 2) == 1 {
		i := int(smallInt(t, "pi"))
		v.PI = &i
	}
	out, err := Marshal(v)
	t.Assert("marshal-ok", err == nil)
	var w vtScalars
	err = Unmarshal(out, &w)
	t.Assert("unmarshal-ok", err == nil)
	// invalid UTF-8 is replaced on the way out: the round trip is claimed for valid UTF-8 only
	sOK := verifref.BytesEq([]byte(w.S), []byte(v.S))
	valid := verifref.BytesEq(verifref.EscapeRef([]byte(v.S), false, true), verifref.EscapeRef([]byte(v.S), false, false))
	t.Assert("string-field", verifrt.Or(sOK, !valid))
	t.Assert("scalar-fields", verifrt.And(w.I8 == v.I8, w.U16 == v.U16, w.I64 == v.I64, w.B == v.B, w.OB == v.OB))
	t.Assert("pointer-nilness", verifrt.And((w.PS == nil) == (v.PS == nil), (w.PI == nil) == (v.PI == nil)))
	if v.PS != nil && w.PS != nil {
		t.Assert("pointer-string", *w.PS == *v.PS)
	}
	if v.PI != nil && w.PI != nil {
		t.Assert("pointer-int", *w.PI == *v.PI)
	}
}

// ---------------------------------------------------------------- C05: parts the destination ignores

type vskT struct {
	A int `json:"a"`
}

// {"x":<N free bytes>,"a":1} into a struct without member x (the value is
// skipped, not decoded) and [<N free bytes>,7] surplus into [0]... : a valid
// document is never rejected and an invalid one never accepted (finding D20,
// skipped parts only bracket/quote-balanced, is repaired).
func H_C05_skipped_member(t *verifrt.T) {
	n := t.Param("N")
	var val []byte
	truncated := false
	switch t.Choice("form", 5) {
	case 3: // input ends inside a string of a skipped object
		val = append([]byte(`{"k":"`), t.Bytes("str", 2)...)
		truncated = true
	case 4: // input ends inside a string of a skipped array
		val = append([]byte(`[{"k":1},"`), t.Bytes("str", 2)...)
		truncated = true
	case 0: // any bytes
		val = t.Bytes("val", n)
	case 1: // an object holding a string of two free bytes (escapes inside skipped objects)
		s := t.Bytes("str", 2)
		val = append(append([]byte(`{"k":"`), s...), `"}`...)
	case 2: // an array holding a string of two free bytes and a nested empty object
		s := t.Bytes("str", 2)
		val = append(append([]byte(`["`), s...), `",{}]`...)
	}
	for i := range val {
		t.Assume(val[i] != 0)
	}
	doc := append([]byte(`{"x":`), val...)
	if !truncated {
		doc = append(doc, `,"a":1}`...)
	}
	var v vskT
	err := Unmarshal(doc, &v)
	accepted := err == nil
	strict := verifref.ValidJSON(doc, verifref.Relax{})
	t.ObserveBool("accepted", accepted)
	// a number outside the float64 range is not an error in a skipped value (encoding/json scans it)
	t.Assert("accepted-only-when-valid", verifrt.Implies(accepted, strict))
	t.Assert("valid-document-accepted", verifrt.Implies(strict, accepted))
	t.Assert("known-member-decoded", verifrt.Implies(verifrt.And(strict, accepted), v.A == 1))
	t.Cover("accepted-valid", verifrt.And(accepted, strict))
	t.Cover("rejected", !accepted)
}

// ---------------------------------------------------------------- C12 stream: earlier results survive later Decode calls

// two string documents on one stream: the first decoded string must keep its
// bytes after the second Decode (the stream buffer is reused/reset in between),
// and neither may alias the reader's data.
func H_C12_stream_alias(t *verifrt.T) {
	n := t.Param("N")
	a := t.Bytes("a", n)
	b := t.Bytes("b", n)
	for i := 0; i < n; i++ {
		t.Assume(verifrt.And(a[i] >= 'a', a[i] <= 'z', b[i] >= 'a', b[i] <= 'z'))
	}
	doc := append([]byte{'"'}, a...)
	doc = append(doc, '"', ' ', '"')
	doc = append(doc, b...)
	doc = append(doc, '"', '\n')
	src := append([]byte{}, doc...)
	dec := NewDecoder(bytes.NewReader(doc))
	var s1, s2 string
	err1 := dec.Decode(&s1)
	keep := string(append([]byte{}, s1...))
	err2 := dec.Decode(&s2)
	t.Assert("both-decoded", verifrt.And(err1 == nil, err2 == nil))
	t.Assert("first-value", keep == string(a))
	t.Assert("first-result-unchanged-by-second-decode", s1 == keep)
	t.Assert("second-value", s2 == string(b))
	t.Assert("reader-data-unchanged", verifref.BytesEq(doc, src))
	var v interface{}
	err3 := dec.Decode(&v)
	t.Assert("then-eof", err3 != nil)
}

// whole documents through the public entry point: json.Unmarshal(doc, &interface{})
// for every byte string of length N (NUL included): accept <=> RFC 8259 modulo the
// recorded relaxations.
func H_C05_unmarshal_iface(t *verifrt.T) {
	n := t.Param("N")
	doc := t.Bytes("doc", n)
	switch t.ParamOr("ALPHA", 0) {
	case 1:
		// structural alphabet: longer texts stay tractable
		for i := range doc {
			c := doc[i]
			t.Assume(verifrt.Or(c == '[', c == ']', c == '{', c == '}', c == '"', c == ',', c == ':', c == '1', c == ' ', c == '\\'))
		}
	case 2:
		// texts that start with "\u : reaches the \uXXXX scanners
		t.Assume(verifrt.And(n >= 3, doc[0] == '"', doc[1] == '\\', doc[2] == 'u'))
	}
	orig := make([]byte, n)
	copy(orig, doc)
	var v interface{}
	err := Unmarshal(doc, &v)
	accepted := err == nil
	t.ObserveBool("accepted", accepted)
	strict := verifref.ValidJSON(orig, verifref.Relax{})
	lax := strict // every recorded relaxation of this destination is repaired
	and, implies := verifrt.And, verifrt.Implies
	// (D5, an embedded NUL ending the input, is repaired: no relaxation for it)
	t.Assert("accept-only-listed-language", implies(accepted, lax))
	// a number outside the float64 range is an error for this destination in encoding/json too
	inRange := true
	if strict {
		inRange = !verifref.NumberOutOfRange(orig)
	}
	t.Assert("valid-json-accepted", implies(verifrt.And(strict, inRange), accepted))
	t.Cover("out-of-range-number-rejected", verifrt.And(strict, !inRange, !accepted))
	t.Assert("input-unchanged", verifref.BytesEq(doc, orig))
	t.Cover("accepted-valid", and(accepted, strict))
	t.Cover("rejected-invalid", and(!accepted, !lax))
}
