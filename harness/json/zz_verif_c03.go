//go:build verif

package json

import (
	"math"

	"github.com/goccy/go-json/internal/verifref"
	"github.com/goccy/go-json/internal/verifrt"
)

func init() {
	VerifHarnesses["H_C03_leaves"] = H_C03_leaves
}

type vnT struct {
	N Number `json:"n"`
	S string `json:"s"`
}

// leaf values that must either be emitted as valid JSON or make Marshal fail:
// json.Number with every N-byte content; non-finite floats.
func H_C03_leaves(t *verifrt.T) {
	switch t.Choice("leaf", 3) {
	case 0:
		n := t.Param("N")
		num := t.String("num", t.Choice("len", n+1))
		out, err := Marshal(&vnT{N: Number(num), S: "x"})
		if err == nil {
			ok := verifref.ValidJSON(out, verifref.Relax{})
			t.Assert("accepted-number-gives-valid-json", ok)
			t.Cover("number-accepted", ok)
		} else {
			t.Cover("number-rejected", true)
		}
	case 1:
		f := []float64{math.NaN(), math.Inf(1), math.Inf(-1)}[t.Choice("f64", 3)]
		_, err := Marshal(struct {
			F float64 `json:"f"`
		}{f})
		t.Assert("non-finite-float64-is-an-error", err != nil)
	case 2:
		f := []float32{float32(math.NaN()), float32(math.Inf(1)), float32(math.Inf(-1))}[t.Choice("f32", 3)]
		out, err := Marshal(struct {
			F float32 `json:"f"`
		}{f})
		if err == nil {
			t.Known("D9-non-finite-float32-emitted", !verifref.ValidJSON(out, verifref.Relax{}))
		}
		t.Cover("float32-checked", true)
	}
}
