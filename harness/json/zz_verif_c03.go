//go:build verif

package json

import (
	"math"

	"github.com/goccy/go-json/internal/verifref"
	"github.com/goccy/go-json/internal/verifrt"
)

func init() {
	VerifHarnesses["H_C03_leaves"] = H_C03_leaves
}

type vnT struct {
	N Number `json:"n"`
	S string `json:"s"`
}

// marshalers that return whatever the harness put in c03Raw
var c03Raw []byte

type vmJ struct{ A int }

func (vmJ) MarshalJSON() ([]byte, error) { return c03Raw, nil }

type vmT struct{ A int }

func (vmT) MarshalText() ([]byte, error) { return c03Raw, nil }

type vmHolder struct {
	S string `json:"s"`
	J vmJ    `json:"j"`
}

type vmTHolder struct {
	T vmT         `json:"t"`
	M map[vmT]int `json:"m"`
}

// leaf values that must either be emitted as valid JSON or make Marshal fail:
// json.Number with every N-byte content; non-finite floats.
func H_C03_leaves(t *verifrt.T) {
	switch t.Choice("leaf", 5) {
	case 3:
		// MarshalJSON returning arbitrary bytes: success only with one valid JSON text
		n := t.Param("MN")
		c03Raw = t.Bytes("raw", t.Choice("len", n+1))
		var out []byte
		var err error
		if t.Choice("pos", 2) == 0 {
			out, err = Marshal(vmJ{})
		} else {
			out, err = Marshal(&vmHolder{S: "x"})
		}
		if err == nil {
			ok := verifref.ValidJSON(out, verifref.Relax{})
			t.Assert("accepted-marshaler-output-gives-valid-json", ok)
			t.Cover("marshaler-accepted", ok)
		} else {
			t.Cover("marshaler-rejected", true)
		}
		c03Raw = nil
	case 4:
		// MarshalText returning arbitrary bytes is always emitted as a valid string / key
		n := t.Param("MN")
		c03Raw = t.Bytes("raw", t.Choice("len", n+1))
		out, err := Marshal(&vmTHolder{M: map[vmT]int{{}: 1}})
		t.Assert("text-marshaler-never-fails", err == nil)
		if err == nil {
			t.Assert("text-marshaler-output-gives-valid-json", verifref.ValidJSON(out, verifref.Relax{}))
		}
		c03Raw = nil
	case 0:
		n := t.Param("N")
		num := t.String("num", t.Choice("len", n+1))
		out, err := Marshal(&vnT{N: Number(num), S: "x"})
		if err == nil {
			ok := verifref.ValidJSON(out, verifref.Relax{})
			t.Assert("accepted-number-gives-valid-json", ok)
			t.Cover("number-accepted", ok)
		} else {
			t.Cover("number-rejected", true)
		}
	case 1:
		f := []float64{math.NaN(), math.Inf(1), math.Inf(-1)}[t.Choice("f64", 3)]
		_, err := Marshal(struct {
			F float64 `json:"f"`
		}{f})
		t.Assert("non-finite-float64-is-an-error", err != nil)
	case 2:
		f := []float32{float32(math.NaN()), float32(math.Inf(1)), float32(math.Inf(-1))}[t.Choice("f32", 3)]
		_, err := Marshal(struct {
			F float32 `json:"f"`
		}{f})
		t.Assert("non-finite-float32-is-an-error", err != nil)
		_, err = MarshalIndent([]float32{1, f}, "", " ")
		t.Assert("non-finite-float32-is-an-error", err != nil)
		_, err = Marshal(&struct {
			P *float32 `json:"p,omitempty"`
			S float32  `json:"s,string"`
		}{P: &f, S: 1})
		t.Assert("non-finite-float32-is-an-error", err != nil)
		t.Cover("float32-checked", true)
	}
}
