//go:build verif

package json

import (
	"context"
	"io"

	"github.com/goccy/go-json/internal/verifref"
	"github.com/goccy/go-json/internal/verifrt"
)

func init() {
	VerifHarnesses["H_C12_marshal_alias"] = H_C12_marshal_alias
	VerifHarnesses["H_C12_stream_chunks"] = H_C12_stream_chunks
}

func c12Encode(entry int, v interface{}) ([]byte, error) {
	switch entry {
	case 0:
		return Marshal(v)
	case 1:
		return MarshalNoEscape(v)
	case 2:
		return MarshalIndent(v, "", " ")
	case 3:
		return MarshalWithOption(v, UnorderedMap())
	}
	return MarshalContext(context.Background(), v)
}

func c12Text(fill byte, first byte, n int) string {
	b := make([]byte, n)
	for i := range b {
		b[i] = fill
	}
	b[0] = first
	return string(b)
}

// The slice an encoding entry point returns is the caller's: a later encoding
// (same or other entry point, small or larger than the pooled buffer) must not
// change it. Run with POOLREUSE=1: sync.Pool hands back the most recently
// released context, the behaviour that maximises sharing. Sizes: 8 bytes and
// 1100 bytes (beyond the pooled buffer's initial 1024-byte capacity, so the
// buffer is reallocated while encoding).
func H_C12_marshal_alias(t *verifrt.T) {
	sizes := []int{8, 1100}
	c := t.Byte("first")
	t.Assume(verifrt.And(c >= 'a', c <= 'z'))
	v1 := &vtInner{X: 1, Y: c12Text('a', c, sizes[t.Choice("size1", 2)])}
	v2 := &vtInner{X: 2, Y: c12Text('b', 'b', sizes[t.Choice("size2", 2)])}
	out1, err1 := c12Encode(t.Choice("entry1", 5), v1)
	t.Assert("first-ok", err1 == nil)
	keep := append([]byte{}, out1...)
	e2 := t.Choice("entry2", 5)
	out2, err2 := c12Encode(e2, v2)
	t.Assert("second-ok", err2 == nil)
	t.Assert("first-result-stable", verifref.BytesEq(out1, keep))
	// and the caller may write into its result without disturbing the library or the second result
	keep2 := append([]byte{}, out2...)
	for i := range out1 {
		out1[i] = '#'
	}
	t.Assert("second-result-independent-of-first", verifref.BytesEq(out2, keep2))
	out3, err3 := c12Encode(e2, v2)
	_ = err3
	t.Assert("library-state-independent-of-callers-writes", verifref.BytesEq(out3, keep2))
}

// c12Chunks delivers data in two Reads: data[:cut], then the rest, then EOF.
type c12Chunks struct {
	data []byte
	cut  int
	pos  int
}

func (r *c12Chunks) Read(p []byte) (int, error) {
	if r.pos >= len(r.data) {
		return 0, io.EOF
	}
	end := len(r.data)
	if r.pos < r.cut {
		end = r.cut
	}
	n := copy(p, r.data[r.pos:end])
	r.pos += n
	return n, nil
}

// two string documents on one stream, delivered in two Reads cut at every
// position: values decoded earlier keep their bytes after later Decode calls.
func H_C12_stream_chunks(t *verifrt.T) {
	n := t.Param("N")
	a := t.Bytes("a", n)
	b := t.Bytes("b", n)
	for i := 0; i < n; i++ {
		t.Assume(verifrt.And(a[i] >= 'a', a[i] <= 'z', b[i] >= 'a', b[i] <= 'z'))
	}
	doc := append([]byte{'"'}, a...)
	doc = append(doc, '"')
	if t.Choice("sep", 2) == 1 {
		doc = append(doc, ' ')
	}
	doc = append(doc, '"')
	doc = append(doc, b...)
	doc = append(doc, '"')
	src := append([]byte{}, doc...)
	dec := NewDecoder(&c12Chunks{data: doc, cut: t.Choice("cut", len(doc)+1)})
	var s1, s2 string
	err1 := dec.Decode(&s1)
	keep := string(append([]byte{}, s1...))
	err2 := dec.Decode(&s2)
	t.Assert("both-decoded", verifrt.And(err1 == nil, err2 == nil))
	t.Assert("first-value", keep == string(a))
	t.Assert("first-result-unchanged-by-second-decode", s1 == keep)
	t.Assert("second-value", s2 == string(b))
	t.Assert("reader-data-unchanged", verifref.BytesEq(doc, src))
}

type vsTag struct {
	S string `json:"s,string"`
	N Number `json:"n,string"`
}

func init() {
	VerifHarnesses["H_C12_stream_stringtag"] = H_C12_stream_stringtag
}

// `,string` members decoded by one Decoder from two documents: what the first
// Decode returned keeps its bytes after the second Decode.
func H_C12_stream_stringtag(t *verifrt.T) {
	a, b := t.Byte("a"), t.Byte("b")
	t.Assume(verifrt.And(a >= 'a', a <= 'z', b >= 'a', b <= 'z', a != b))
	bs := byte('\\')
	d1 := []byte{'{', '"', 's', '"', ':', '"', bs, '"', a, a, bs, '"', '"', ',', '"', 'n', '"', ':', '"', '1', '2', '"', '}'}
	d2 := []byte{'{', '"', 's', '"', ':', '"', bs, '"', b, b, bs, '"', '"', ',', '"', 'n', '"', ':', '"', '3', '4', '"', '}'}
	doc := append(append(append([]byte{}, d1...), ' '), d2...)
	dec := NewDecoder(&c12Chunks{data: doc, cut: t.Choice("cut", len(doc)+1)})
	var v1, v2 vsTag
	err1 := dec.Decode(&v1)
	keepS, keepN := string(append([]byte{}, v1.S...)), string(append([]byte{}, v1.N...))
	err2 := dec.Decode(&v2)
	t.Assert("both-decoded", verifrt.And(err1 == nil, err2 == nil))
	t.Assert("first-values", verifrt.And(keepS == string([]byte{a, a}), keepN == "12"))
	t.Assert("first-result-unchanged-by-second-decode", verifrt.And(v1.S == keepS, string(v1.N) == keepN))
	t.Assert("second-values", verifrt.And(v2.S == string([]byte{b, b}), string(v2.N) == "34"))
}
