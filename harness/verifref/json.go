//go:build verif

package verifref

import "strconv"

// Relax: named relaxations of the RFC 8259 grammar, one per recorded finding.
type Relax struct {
	NumberGo     bool // D3: a number token is a maximal run of [0-9.eE+-] that Go's float syntax accepts
	CtrlInString bool // D4: raw control characters (not NUL) allowed inside strings
	NulEnds      bool // D5: an embedded NUL ends the input
	AnyEscape    bool // D29: inside strings a backslash followed by any non-NUL byte is accepted
}

const maxRefDepth = 64

// ValidJSON: is b exactly one JSON text (RFC 8259) optionally surrounded by
// whitespace, under the given relaxations?
func ValidJSON(b []byte, rx Relax) bool {
	if rx.NulEnds {
		for i := 0; i < len(b); i++ {
			if b[i] == 0 {
				b = b[:i]
				break
			}
		}
	}
	i := skipWSRef(b, 0)
	j, ok := valueRef(b, i, rx, 0)
	if !ok {
		return false
	}
	j = skipWSRef(b, j)
	return j == len(b)
}

func skipWSRef(b []byte, i int) int {
	for i < len(b) && isWS(b[i]) {
		i++
	}
	return i
}

func isDigit(c byte) bool { return c >= '0' && c <= '9' }

func lit(b []byte, i int, s string) (int, bool) {
	if i+len(s) > len(b) {
		return i, false
	}
	for k := 0; k < len(s); k++ {
		if b[i+k] != s[k] {
			return i, false
		}
	}
	return i + len(s), true
}

// NumberEnd: end of the strict RFC number starting at i (ok=false if none).
func NumberEnd(b []byte, i int) (int, bool) {
	if i < len(b) && b[i] == '-' {
		i++
	}
	if i >= len(b) || !isDigit(b[i]) {
		return i, false
	}
	if b[i] == '0' {
		i++
	} else {
		for i < len(b) && isDigit(b[i]) {
			i++
		}
	}
	if i < len(b) && b[i] == '.' {
		i++
		if i >= len(b) || !isDigit(b[i]) {
			return i, false
		}
		for i < len(b) && isDigit(b[i]) {
			i++
		}
	}
	if i < len(b) && (b[i] == 'e' || b[i] == 'E') {
		i++
		if i < len(b) && (b[i] == '+' || b[i] == '-') {
			i++
		}
		if i >= len(b) || !isDigit(b[i]) {
			return i, false
		}
		for i < len(b) && isDigit(b[i]) {
			i++
		}
	}
	return i, true
}

func isFloatChar(c byte) bool {
	return isDigit(c) || c == '.' || c == 'e' || c == 'E' || c == '+' || c == '-'
}

// GoFloatRun: the maximal run of float characters starting at i, and whether
// Go's strconv float syntax (decimal, no underscores) accepts it.
func GoFloatRun(b []byte, i int) (int, bool) {
	j := i
	for j < len(b) && isFloatChar(b[j]) {
		j++
	}
	s := b[i:j]
	k := 0
	if k < len(s) && (s[k] == '+' || s[k] == '-') {
		k++
	}
	digits := 0
	for k < len(s) && isDigit(s[k]) {
		k++
		digits++
	}
	if k < len(s) && s[k] == '.' {
		k++
		for k < len(s) && isDigit(s[k]) {
			k++
			digits++
		}
	}
	if digits == 0 {
		return j, false
	}
	if k < len(s) && (s[k] == 'e' || s[k] == 'E') {
		k++
		if k < len(s) && (s[k] == '+' || s[k] == '-') {
			k++
		}
		ed := 0
		for k < len(s) && isDigit(s[k]) {
			k++
			ed++
		}
		if ed == 0 {
			return j, false
		}
	}
	return j, k == len(s)
}

func stringEndRef(b []byte, i int, rx Relax) (int, bool) {
	// b[i] == '"'
	i++
	for i < len(b) {
		c := b[i]
		switch {
		case c == '"':
			return i + 1, true
		case c == '\\':
			if i+1 >= len(b) {
				return i, false
			}
			if rx.AnyEscape && b[i+1] != 0 {
				i += 2
				continue
			}
			switch b[i+1] {
			case '"', '\\', '/', 'b', 'f', 'n', 'r', 't':
				i += 2
			case 'u':
				if u4(b[i:]) < 0 {
					return i, false
				}
				i += 6
			default:
				return i, false
			}
		case c < 0x20:
			if c == 0 || !rx.CtrlInString {
				return i, false
			}
			i++
		default:
			i++
		}
	}
	return i, false
}

func valueRef(b []byte, i int, rx Relax, depth int) (int, bool) {
	if i >= len(b) || depth > maxRefDepth {
		return i, false
	}
	switch c := b[i]; {
	case c == '{':
		i = skipWSRef(b, i+1)
		if i < len(b) && b[i] == '}' {
			return i + 1, true
		}
		for {
			if i >= len(b) || b[i] != '"' {
				return i, false
			}
			var ok bool
			i, ok = stringEndRef(b, i, rx)
			if !ok {
				return i, false
			}
			i = skipWSRef(b, i)
			if i >= len(b) || b[i] != ':' {
				return i, false
			}
			i = skipWSRef(b, i+1)
			i, ok = valueRef(b, i, rx, depth+1)
			if !ok {
				return i, false
			}
			i = skipWSRef(b, i)
			if i < len(b) && b[i] == '}' {
				return i + 1, true
			}
			if i >= len(b) || b[i] != ',' {
				return i, false
			}
			i = skipWSRef(b, i+1)
		}
	case c == '[':
		i = skipWSRef(b, i+1)
		if i < len(b) && b[i] == ']' {
			return i + 1, true
		}
		for {
			var ok bool
			i, ok = valueRef(b, i, rx, depth+1)
			if !ok {
				return i, false
			}
			i = skipWSRef(b, i)
			if i < len(b) && b[i] == ']' {
				return i + 1, true
			}
			if i >= len(b) || b[i] != ',' {
				return i, false
			}
			i = skipWSRef(b, i+1)
		}
	case c == '"':
		return stringEndRef(b, i, rx)
	case c == 't':
		return lit(b, i, "true")
	case c == 'f':
		return lit(b, i, "false")
	case c == 'n':
		return lit(b, i, "null")
	case c == '-' || isDigit(c):
		if rx.NumberGo {
			return GoFloatRun(b, i)
		}
		return NumberEnd(b, i)
	}
	return i, false
}

// RefCompact: encoding/json.Compact on a valid text: whitespace outside
// strings dropped; with escape, < > & U+2028 U+2029 inside strings rewritten.
func RefCompact(src []byte, escape bool) []byte {
	out := []byte{}
	inStr := false
	for i := 0; i < len(src); i++ {
		c := src[i]
		if inStr {
			if c == '\\' && i+1 < len(src) {
				out = append(out, c, src[i+1])
				i++
				continue
			}
			if c == '"' {
				inStr = false
			}
			if escape && (c == '<' || c == '>' || c == '&') {
				out = append(out, '\\', 'u', '0', '0', hexdigits[c>>4], hexdigits[c&0xf])
				continue
			}
			if escape && c == 0xe2 && i+2 < len(src) && src[i+1] == 0x80 && src[i+2]&^1 == 0xa8 {
				out = append(out, '\\', 'u', '2', '0', '2', hexdigits[src[i+2]&0xf])
				i += 2
				continue
			}
			out = append(out, c)
			continue
		}
		if isWS(c) {
			continue
		}
		if c == '"' {
			inStr = true
		}
		out = append(out, c)
	}
	return out
}

func refNewline(out []byte, prefix, indent []byte, depth int) []byte {
	out = append(out, '\n')
	out = append(out, prefix...)
	for i := 0; i < depth; i++ {
		out = append(out, indent...)
	}
	return out
}

// RefIndent: encoding/json.Indent on a valid text. keepTrailing: copy the
// trailing whitespace of src (encoding/json does).
func RefIndent(src []byte, prefix, indent []byte, keepTrailing bool) []byte {
	out := []byte{}
	inStr := false
	needIndent := false
	depth := 0
	end := len(src)
	for end > 0 && isWS(src[end-1]) {
		end--
	}
	for i := 0; i < end; i++ {
		c := src[i]
		if inStr {
			out = append(out, c)
			if c == '\\' && i+1 < end {
				out = append(out, src[i+1])
				i++
				continue
			}
			if c == '"' {
				inStr = false
			}
			continue
		}
		if isWS(c) {
			continue
		}
		if needIndent && c != ']' && c != '}' {
			needIndent = false
			depth++
			out = refNewline(out, prefix, indent, depth)
		}
		switch c {
		case '"':
			inStr = true
			out = append(out, c)
		case '{', '[':
			out = append(out, c)
			needIndent = true
		case ',':
			out = append(out, c)
			out = refNewline(out, prefix, indent, depth)
		case ':':
			out = append(out, c, ' ')
		case '}', ']':
			if needIndent {
				needIndent = false
			} else {
				depth--
				out = refNewline(out, prefix, indent, depth)
			}
			out = append(out, c)
		default:
			out = append(out, c)
		}
	}
	if keepTrailing {
		out = append(out, src[end:]...)
	}
	return out
}

// RefCanon: the canonical re-encoding of a valid JSON text: whitespace
// dropped, number literals kept, every string re-escaped from its decoded
// value by EscapeRef(html, norm=true). Defined for texts whose objects hold at
// most one member (member order and duplicate keys are outside it).
func RefCanon(src []byte, html bool) []byte {
	out := []byte{}
	for i := 0; i < len(src); {
		c := src[i]
		if isWS(c) {
			i++
			continue
		}
		if c == '"' {
			tok := StringLiteral(src[i:])
			if !tok.OK {
				return nil
			}
			out = append(out, EscapeRef(tok.Value, html, true)...)
			i += tok.End
			continue
		}
		out = append(out, c)
		i++
	}
	return out
}

// NumberOutOfRange: does a strictly valid JSON text hold a number token whose
// value does not fit a float64 (strconv.ParseFloat reports a range error)?
// Decoding such a number into interface{} or a float is an error in
// encoding/json as well (UnmarshalTypeError), so acceptance is not demanded.
// (Number tokens are located outside strings; the text is assumed valid.)
func NumberOutOfRange(b []byte) bool {
	inStr := false
	for i := 0; i < len(b); i++ {
		c := b[i]
		if inStr {
			if c == '\\' {
				i++
			} else if c == '"' {
				inStr = false
			}
			continue
		}
		if c == '"' {
			inStr = true
			continue
		}
		if c == '-' || isDigit(c) {
			end, ok := NumberEnd(b, i)
			if !ok {
				return false
			}
			if _, err := strconv.ParseFloat(string(b[i:end]), 64); err != nil {
				return true
			}
			i = end - 1
		}
	}
	return false
}
