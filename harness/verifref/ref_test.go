//go:build verif

package verifref

import (
	"bytes"
	"encoding/json"
	"math/rand"
	"strconv"
	"testing"
)

// The reference models are validated against encoding/json / strconv.

func TestValidJSONAgainstEncodingJSON(t *testing.T) {
	alpha := []byte("{}[],:\"\\u0 1-+.eEtrfalsn\x01\x7f\xc3\xa9/b")
	var rec func(prefix []byte, n int)
	count := 0
	rec = func(prefix []byte, n int) {
		if ValidJSON(prefix, Relax{}) != json.Valid(prefix) {
			t.Fatalf("ValidJSON(%q)=%v encoding/json=%v", prefix, ValidJSON(prefix, Relax{}), json.Valid(prefix))
		}
		count++
		if n == 0 {
			return
		}
		for _, c := range alpha {
			rec(append(prefix[:len(prefix):len(prefix)], c), n-1)
		}
	}
	rec(nil, 4)
	rng := rand.New(rand.NewSource(1))
	for i := 0; i < 300000; i++ {
		n := rng.Intn(12)
		b := make([]byte, n)
		for j := range b {
			b[j] = alpha[rng.Intn(len(alpha))]
		}
		if ValidJSON(b, Relax{}) != json.Valid(b) {
			t.Fatalf("ValidJSON(%q)=%v encoding/json=%v", b, ValidJSON(b, Relax{}), json.Valid(b))
		}
	}
	t.Logf("%d exhaustive + 300000 random documents agree", count)
}

func TestEscapeRefAgainstEncodingJSON(t *testing.T) {
	rng := rand.New(rand.NewSource(2))
	check := func(s []byte) {
		for _, html := range []bool{false, true} {
			var buf bytes.Buffer
			enc := json.NewEncoder(&buf)
			enc.SetEscapeHTML(html)
			enc.Encode(string(s))
			want := bytes.TrimSuffix(buf.Bytes(), []byte("\n"))
			want = bytes.ReplaceAll(want, []byte(`\b`), []byte(`\u0008`))
			want = bytes.ReplaceAll(want, []byte(`\f`), []byte(`\u000c`))
			got := EscapeRef(s, html, true)
			if html == false {
				// encoding/json escapes U+2028/9 always; so does the reference with norm
			}
			if !bytes.Equal(got, want) && !bytes.Contains(s, []byte(`\`)) {
				t.Fatalf("EscapeRef(%q,html=%v)=%s encoding/json=%s", s, html, got, want)
			}
		}
	}
	for a := 0; a < 256; a++ {
		check([]byte{byte(a)})
		for b := 0; b < 256; b++ {
			check([]byte{byte(a), byte(b)})
		}
	}
	for i := 0; i < 200000; i++ {
		n := rng.Intn(10)
		s := make([]byte, n)
		for j := range s {
			s[j] = byte(rng.Intn(256))
		}
		check(s)
	}
}

func TestStringLiteralAgainstEncodingJSON(t *testing.T) {
	rng := rand.New(rand.NewSource(3))
	alpha := []byte("\"\\u0dD8cCfFa9/bnrtx \x01\xc3\xa9\xe2\x80\xa8\xff")
	for i := 0; i < 500000; i++ {
		n := rng.Intn(14)
		b := []byte{'"'}
		for j := 0; j < n; j++ {
			b = append(b, alpha[rng.Intn(len(alpha))])
		}
		b = append(b, '"')
		tok := StringLiteral(b)
		var s string
		err := json.Unmarshal(b, &s)
		if tok.OK && tok.End == len(b) {
			if err != nil || s != string(tok.Value) {
				t.Fatalf("StringLiteral(%q) ok value=%q; encoding/json: %q %v", b, tok.Value, s, err)
			}
		} else if err == nil {
			t.Fatalf("StringLiteral(%q) rejects (ok=%v end=%d); encoding/json accepts %q", b, tok.OK, tok.End, s)
		}
	}
}

func TestIntTokenAgainstStrconv(t *testing.T) {
	rng := rand.New(rand.NewSource(4))
	for i := 0; i < 300000; i++ {
		n := 1 + rng.Intn(21)
		b := make([]byte, 0, n+1)
		if rng.Intn(2) == 0 {
			b = append(b, '-')
		}
		for j := 0; j < n; j++ {
			b = append(b, byte('0'+rng.Intn(10)))
		}
		tok := IntToken(b)
		if tok.OK && tok.End == len(b) && !tok.LeadingZero {
			v, err := strconv.ParseInt(string(b), 10, 64)
			got, fits := tok.FitsInt(64)
			if (err == nil) != fits || (fits && got != v) {
				t.Fatalf("IntToken(%s): fits=%v got=%d strconv=%d %v", b, fits, got, v, err)
			}
			if !tok.Neg {
				u, err := strconv.ParseUint(string(b), 10, 64)
				gu, fu := tok.FitsUint(64)
				if (err == nil) != fu || (fu && gu != u) {
					t.Fatalf("IntToken(%s) unsigned: fits=%v got=%d strconv=%d %v", b, fu, gu, u, err)
				}
			}
		}
	}
	for _, v := range []int64{0, 1, -1, 9, 10, 99, 100, -128, 127, 1<<31 - 1, -1 << 31, 1<<63 - 1, -1 << 63} {
		if string(Itoa(v)) != strconv.FormatInt(v, 10) {
			t.Fatalf("Itoa(%d)=%s", v, Itoa(v))
		}
	}
	for i := 0; i < 100000; i++ {
		v := int64(rng.Uint64()) >> uint(rng.Intn(64))
		if string(Itoa(v)) != strconv.FormatInt(v, 10) || string(Utoa(uint64(v))) != strconv.FormatUint(uint64(v), 10) {
			t.Fatalf("Itoa/Utoa(%d)", v)
		}
	}
}

func TestCompactIndentAgainstEncodingJSON(t *testing.T) {
	rng := rand.New(rand.NewSource(5))
	alpha := []byte("{}[],:\"\\u0 1-.eEtrfalsn\t\n<>&\xe2\x80\xa8a")
	pis := [][2]string{{"", ""}, {"", " "}, {">", "\t"}, {"é", "  "}, {" ", ""}}
	n := 0
	for i := 0; i < 3000000 && n < 60000; i++ {
		l := rng.Intn(14)
		b := make([]byte, l)
		for j := range b {
			b[j] = alpha[rng.Intn(len(alpha))]
		}
		if !json.Valid(b) {
			continue
		}
		n++
		var w bytes.Buffer
		if err := json.Compact(&w, b); err != nil || !bytes.Equal(w.Bytes(), RefCompact(b, false)) {
			t.Fatalf("RefCompact(%q)=%q encoding/json=%q %v", b, RefCompact(b, false), w.Bytes(), err)
		}
		w.Reset()
		json.HTMLEscape(&w, b)
		if !bytes.Equal(w.Bytes(), RefCompact(b, true)) && !bytes.ContainsAny(b, " \t\n") {
			t.Fatalf("RefCompact(%q,escape)=%q HTMLEscape=%q", b, RefCompact(b, true), w.Bytes())
		}
		for _, pi := range pis {
			w.Reset()
			if err := json.Indent(&w, b, pi[0], pi[1]); err != nil || !bytes.Equal(w.Bytes(), RefIndent(b, []byte(pi[0]), []byte(pi[1]), true)) {
				t.Fatalf("RefIndent(%q,%q,%q)=%q encoding/json=%q %v", b, pi[0], pi[1], RefIndent(b, []byte(pi[0]), []byte(pi[1]), true), w.Bytes(), err)
			}
		}
	}
	t.Logf("%d valid documents compared", n)
}
