//go:build verif

// Package verifref holds the reference models the harnesses compare the
// implementation with. Plain Go, loops bounded by the input length.
package verifref

// Itoa renders a signed 64-bit value in decimal (reference for O16.1).
func Itoa(v int64) []byte {
	neg := v < 0
	mag := uint64(v)
	if neg {
		mag = -mag
	}
	b := Utoa(mag)
	if neg {
		return append([]byte{'-'}, b...)
	}
	return b
}

// Utoa renders an unsigned 64-bit value in decimal.
func Utoa(mag uint64) []byte {
	var b [20]byte
	i := 20
	for {
		i--
		b[i] = byte('0' + mag%10)
		mag /= 10
		if mag == 0 {
			break
		}
	}
	out := make([]byte, 20-i)
	copy(out, b[i:])
	return out
}
