//go:build verif

// Package verifref holds the reference models the harnesses compare the
// implementation with. Plain Go, loops bounded by the input length.
package verifref

// Itoa renders a signed 64-bit value in decimal (reference for O16.1).
func Itoa(v int64) []byte {
	neg := v < 0
	mag := uint64(v)
	if neg {
		mag = -mag
	}
	b := Utoa(mag)
	if neg {
		return append([]byte{'-'}, b...)
	}
	return b
}

// Utoa renders an unsigned 64-bit value in decimal.
func Utoa(mag uint64) []byte {
	var b [20]byte
	i := 20
	for {
		i--
		b[i] = byte('0' + mag%10)
		mag /= 10
		if mag == 0 {
			break
		}
	}
	out := make([]byte, 20-i)
	copy(out, b[i:])
	return out
}

// IntTok describes what an RFC 8259 integer-only reader finds at the start
// of buf (after optional whitespace).
type IntTok struct {
	OK       bool   // a valid integer literal or null was found
	Null     bool   // the literal null
	Neg      bool   // literal starts with '-'
	Mag      uint64 // magnitude (valid when !Overflow)
	Overflow bool   // magnitude does not fit in 64 bits
	End      int    // offset just past the token
	Start    int    // offset of the first token byte
	// relaxation classes (what the token would be under a laxer grammar)
	BareMinus   bool // '-' not followed by a digit
	LeadingZero bool // '-' followed by 0 and more digits ("-01")
	LaxEnd      int  // end of the maximal run [-]?[0-9]*
}

func isWS(c byte) bool { return c == ' ' || c == '\t' || c == '\n' || c == '\r' }

// IntToken: ws* ( "null" | '-'? ( '0' | [1-9][0-9]* ) ). buf need not be
// NUL-terminated; reading stops at len(buf).
func IntToken(buf []byte) IntTok {
	var r IntTok
	i := 0
	for i < len(buf) && isWS(buf[i]) {
		i++
	}
	r.Start = i
	if i+4 <= len(buf) && buf[i] == 'n' && buf[i+1] == 'u' && buf[i+2] == 'l' && buf[i+3] == 'l' {
		r.OK, r.Null, r.End = true, true, i+4
		return r
	}
	if i < len(buf) && buf[i] == '-' {
		r.Neg = true
		i++
	}
	// lax run of digits
	j := i
	for j < len(buf) && buf[j] >= '0' && buf[j] <= '9' {
		j++
	}
	r.LaxEnd = j
	if j == i {
		r.BareMinus = r.Neg
		return r
	}
	if buf[i] == '0' {
		r.OK, r.End = true, i+1
		r.LeadingZero = r.Neg && j > i+1
		return r
	}
	var mag uint64
	for k := i; k < j; k++ {
		d := uint64(buf[k] - '0')
		// mag*10+d > 2^64-1  (2^64-1 = 1844674407370955161*10 + 5)
		if mag > 1844674407370955161 || (mag == 1844674407370955161 && d > 5) {
			r.Overflow = true
			mag = 0
		}
		if !r.Overflow {
			mag = mag*10 + d
		}
	}
	r.OK, r.End, r.Mag = true, j, mag
	return r
}

// FitsInt reports whether the token value fits a signed integer of the given
// bit size and returns it.
func (r IntTok) FitsInt(bits uint) (int64, bool) {
	if r.Overflow {
		return 0, false
	}
	limit := uint64(1) << (bits - 1)
	if r.Neg {
		if r.Mag > limit {
			return 0, false
		}
		return -int64(r.Mag), true
	}
	if r.Mag >= limit {
		return 0, false
	}
	return int64(r.Mag), true
}

// FitsUint: same for unsigned (a '-' never fits, except that is a syntax
// matter for the caller).
func (r IntTok) FitsUint(bits uint) (uint64, bool) {
	if r.Overflow || r.Neg {
		return 0, false
	}
	if bits < 64 && r.Mag >= uint64(1)<<bits {
		return 0, false
	}
	return r.Mag, true
}
