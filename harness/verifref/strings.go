//go:build verif

package verifref

import "unicode/utf8"

const hexdigits = "0123456789abcdef"

// EscapeRef is the reference JSON string escaper (encoding/json's rules, with
// \u0008 and \u000c spelled as go-json spells them). norm: invalid UTF-8 ->
// � and U+2028/9 escaped; html: < > & escaped, and U+2028/9 escaped too.
func EscapeRef(s []byte, html, norm bool) []byte { return EscapeRefSep(s, html, norm, true) }

// EscapeRefSep: sep=false leaves U+2028/U+2029 raw when normalisation is off
// (relaxation for recorded finding D27).
func EscapeRefSep(s []byte, html, norm, sep bool) []byte {
	out := []byte{'"'}
	for i := 0; i < len(s); {
		c := s[i]
		if c < utf8.RuneSelf {
			switch {
			case c == '"' || c == '\\':
				out = append(out, '\\', c)
			case c == '\n':
				out = append(out, '\\', 'n')
			case c == '\r':
				out = append(out, '\\', 'r')
			case c == '\t':
				out = append(out, '\\', 't')
			case c < 0x20 || (html && (c == '<' || c == '>' || c == '&')):
				out = append(out, '\\', 'u', '0', '0', hexdigits[c>>4], hexdigits[c&0xf])
			default:
				out = append(out, c)
			}
			i++
			continue
		}
		if !norm && (!html || !sep) {
			out = append(out, c)
			i++
			continue
		}
		r, size := utf8.DecodeRune(s[i:])
		if r == utf8.RuneError && size == 1 {
			if norm {
				out = append(out, '\\', 'u', 'f', 'f', 'f', 'd')
			} else {
				out = append(out, c)
			}
			i++
			continue
		}
		if r == 0x2028 || r == 0x2029 {
			out = append(out, '\\', 'u', '2', '0', '2', hexdigits[r&0xf])
			i += size
			continue
		}
		out = append(out, s[i:i+size]...)
		i += size
	}
	return append(out, '"')
}

// StrTok: what an RFC 8259 string reader finds at buf[0] == '"'.
type StrTok struct {
	OK      bool   // a complete, valid literal
	End     int    // offset just past the closing quote
	Value   []byte // decoded value as encoding/json decodes it
	RawCtrl bool   // the literal would be valid if raw control characters (not NUL) were allowed
	BadUTF8 bool   // the (otherwise valid) literal contains invalid UTF-8
	Escaped bool
}

func hexVal(c byte) int {
	switch {
	case c >= '0' && c <= '9':
		return int(c - '0')
	case c >= 'a' && c <= 'f':
		return int(c-'a') + 10
	case c >= 'A' && c <= 'F':
		return int(c-'A') + 10
	}
	return -1
}

func u4(b []byte) int {
	if len(b) < 6 || b[0] != '\\' || b[1] != 'u' {
		return -1
	}
	r := 0
	for _, c := range b[2:6] {
		h := hexVal(c)
		if h < 0 {
			return -1
		}
		r = r*16 + h
	}
	return r
}

// StringLiteral scans the literal starting at buf[0] (which must be '"').
// allowCtrl relaxes the grammar to admit raw control characters other than
// NUL (recorded finding D4); the strict verdict is in OK.
func StringLiteral(buf []byte) StrTok {
	var t StrTok
	if len(buf) == 0 || buf[0] != '"' {
		return t
	}
	ctrl := false
	val := []byte{}
	i := 1
	for i < len(buf) {
		c := buf[i]
		switch {
		case c == '"':
			t.End = i + 1
			t.Value = val
			if ctrl {
				t.RawCtrl = true
			} else {
				t.OK = true
			}
			return t
		case c == '\\':
			t.Escaped = true
			if i+1 >= len(buf) {
				return t
			}
			e := buf[i+1]
			switch e {
			case '"', '\\', '/':
				val = append(val, e)
				i += 2
			case 'b':
				val = append(val, '\b')
				i += 2
			case 'f':
				val = append(val, '\f')
				i += 2
			case 'n':
				val = append(val, '\n')
				i += 2
			case 'r':
				val = append(val, '\r')
				i += 2
			case 't':
				val = append(val, '\t')
				i += 2
			case 'u':
				r := u4(buf[i:])
				if r < 0 {
					return t
				}
				i += 6
				if r >= 0xd800 && r < 0xe000 {
					// surrogate: needs a following low surrogate escape
					r2 := u4(buf[i:])
					if r < 0xdc00 && r2 >= 0xdc00 && r2 < 0xe000 {
						full := 0x10000 + (r-0xd800)<<10 + (r2 - 0xdc00)
						val = utf8.AppendRune(val, rune(full))
						i += 6
					} else {
						val = append(val, 0xef, 0xbf, 0xbd)
					}
				} else {
					val = utf8.AppendRune(val, rune(r))
				}
			default:
				return t
			}
		case c < 0x20:
			if c == 0 {
				return t
			}
			ctrl = true
			val = append(val, c)
			i++
		case c < utf8.RuneSelf:
			val = append(val, c)
			i++
		default:
			r, size := utf8.DecodeRune(buf[i:])
			if r == utf8.RuneError && size == 1 {
				t.BadUTF8 = true
				val = append(val, 0xef, 0xbf, 0xbd)
				i++
			} else {
				val = append(val, buf[i:i+size]...)
				i += size
			}
		}
	}
	return t
}

func BytesEq(a, b []byte) bool { return string(a) == string(b) }
