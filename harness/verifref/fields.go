//go:build verif

package verifref

// FieldFor: which of the field names an object key selects under Go's JSON
// rules: exact match first, otherwise the first name equal under ASCII case
// folding (non-ASCII folding is outside the key alphabet used); -1 = none.
func FieldFor(names []string, key []byte) int {
	for i, n := range names {
		if string(key) == n {
			return i
		}
	}
	for i, n := range names {
		if len(n) != len(key) {
			continue
		}
		eq := true
		for j := 0; j < len(n); j++ {
			a, b := n[j], key[j]
			if a >= 'A' && a <= 'Z' {
				a += 'a' - 'A'
			}
			if b >= 'A' && b <= 'Z' {
				b += 'a' - 'A'
			}
			if a != b {
				eq = false
				break
			}
		}
		if eq {
			return i
		}
	}
	return -1
}
