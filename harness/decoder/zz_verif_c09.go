//go:build verif

package decoder

import (
	"io"
	"unsafe"

	"github.com/goccy/go-json/internal/verifref"
	"github.com/goccy/go-json/internal/verifrt"
)

func init() {
	VerifHarnesses["H_C09_stream_vs_buffer"] = H_C09_stream_vs_buffer
	VerifHarnesses["H_C09_stream_ints"] = H_C09_stream_ints
	VerifHarnesses["H_C09_stream_templates"] = H_C09_stream_templates
}

// vChunkReader hands out the document cut at an arbitrary set of positions:
// a Read never crosses the next cut (nor len(p)). The cut positions are an
// ENUMERATED choice made on first use (max cuts, each at any offset), so every
// placement of up to `max` chunk boundaries is explored; the last bytes come
// either together with io.EOF or followed by a separate (0, io.EOF).
type vChunkReader struct {
	t      *verifrt.T
	data   []byte
	pos    int
	max    int
	cuts   []int
	chosen bool
}

func (r *vChunkReader) choose() {
	r.chosen = true
	lo := 1
	for i := 0; i < r.max && lo < len(r.data); i++ {
		// cut i at an offset in [lo, len-1], or no further cut
		c := lo + r.t.Choice("cut", len(r.data)-lo+1)
		if c >= len(r.data) {
			break
		}
		r.cuts = append(r.cuts, c)
		lo = c + 1
	}
}

func (r *vChunkReader) Read(p []byte) (int, error) {
	if !r.chosen {
		r.choose()
	}
	rem := len(r.data) - r.pos
	if rem == 0 {
		return 0, io.EOF
	}
	if len(p) == 0 {
		return 0, nil
	}
	k := rem
	if len(p) < k {
		k = len(p)
	}
	for _, c := range r.cuts {
		if c > r.pos && c-r.pos < k {
			k = c - r.pos
		}
	}
	copy(p, r.data[r.pos:r.pos+k])
	r.pos += k
	if r.pos == len(r.data) && r.t.Choice("eof-with-data", 2) == 1 {
		return k, io.EOF
	}
	return k, nil
}

type vdS struct {
	A int    `json:"a"`
	B string `json:"b"`
}

func VerifSetup() {
	for _, v := range []interface{}{new(int64), new(string), new(bool), new(vdS), new(uint8), new(int8), new(int16), new(int32), new(uint16), new(uint32), new(uint64), new(vdW), new([]int), new(map[string]int), new(vdDeep), new([2]int), new([]interface{})} {
		CompileToGetDecoder(vTypeOf(v))
	}
}

// Stream decoding == buffer decoding for every document of length N and every
// chunking with at most R free chunk boundaries, initial stream buffer BS bytes.
func H_C09_stream_vs_buffer(t *verifrt.T) {
	n := t.Param("N")
	data := t.Bytes("doc", n)
	for i := range data {
		t.Assume(data[i] != 0)
	}
	kind := t.Choice("target", 5)
	var pb, ps unsafe.Pointer
	var typ interface{}
	var bi, si int64
	var bs, ss string
	var bb, sb bool
	var bst, sst vdS
	var bu, su uint8
	switch kind {
	case 0:
		typ, pb, ps = new(int64), unsafe.Pointer(&bi), unsafe.Pointer(&si)
	case 1:
		typ, pb, ps = new(string), unsafe.Pointer(&bs), unsafe.Pointer(&ss)
	case 2:
		typ, pb, ps = new(bool), unsafe.Pointer(&bb), unsafe.Pointer(&sb)
	case 3:
		typ, pb, ps = new(vdS), unsafe.Pointer(&bst), unsafe.Pointer(&sst)
	case 4:
		typ, pb, ps = new(uint8), unsafe.Pointer(&bu), unsafe.Pointer(&su)
	}
	dec, err := CompileToGetDecoder(vTypeOf(typ))
	t.Assume(err == nil)
	// ---- buffer mode (what json.Unmarshal does)
	buf := make([]byte, n+1)
	copy(buf, data)
	cur, errB := dec.Decode(&RuntimeContext{Buf: buf, Option: &Option{}}, 0, 0, pb)
	okB := errB == nil && vEndOK(buf, cur)
	// ---- stream mode (what json.Decoder.Decode does), then "only whitespace until EOF"
	bsz := int64(t.Param("BS"))
	s := &Stream{r: &vChunkReader{t: t, data: data, max: t.Param("R")}, bufSize: bsz, buf: make([]byte, bsz), Option: &Option{}}
	okS := false
	if s.PrepareForDecode() == nil {
		if dec.DecodeStream(s, 0, ps) == nil {
			s.Reset()
			okS = s.PrepareForDecode() == io.EOF
		}
	}
	t.ObserveBool("buffer", okB)
	t.ObserveBool("stream", okS)
	strict := verifref.ValidJSON(data, verifref.Relax{})
	// recorded classes: the stream decoder is laxer/stricter than the buffer decoder on invalid texts only
	kf := verifrt.And(okB != okS, !strict)
	t.Known("D6-D7-stream-and-buffer-verdicts-differ-on-invalid-text", kf)
	t.Assert("same-verdict", verifrt.Or(okB == okS, kf))
	if okB && okS {
		switch kind {
		case 0:
			t.Assert("same-value", bi == si)
		case 1:
			t.Assert("same-value", bs == ss)
		case 2:
			t.Assert("same-value", bb == sb)
		case 3:
			t.Assert("same-value", verifrt.And(bst.A == sst.A, bst.B == sst.B))
		case 4:
			t.Assert("same-value", bu == su)
		}
	}
	t.Cover("both-accept", verifrt.And(okB, okS))
	t.Cover("both-reject", verifrt.And(!okB, !okS))
}

func trimWS(b []byte) []byte {
	i := 0
	for i < len(b) && (b[i] == ' ' || b[i] == '\t' || b[i] == '\n' || b[i] == '\r') {
		i++
	}
	return b[i:]
}

// Integer targets of every width: documents over the alphabet digits, '-',
// space (N bytes), every chunking with R free boundaries: stream verdict and
// value == buffer verdict and value (range checks of both paths included).
func H_C09_stream_ints(t *verifrt.T) {
	n := t.Param("N")
	data := t.Bytes("doc", n)
	for i := range data {
		t.Assume(verifrt.Or(verifrt.And(data[i] >= '0', data[i] <= '9'), data[i] == '-', data[i] == ' ', data[i] == '.', data[i] == 'e'))
	}
	targets := []interface{}{new(int8), new(int16), new(int32), new(int64), new(uint8), new(uint16), new(uint32), new(uint64)}
	typ := targets[t.Choice("target", len(targets))]
	dec, err := CompileToGetDecoder(vTypeOf(typ))
	t.Assume(err == nil)
	var bv, sv uint64
	buf := make([]byte, n+1)
	copy(buf, data)
	cur, errB := dec.Decode(&RuntimeContext{Buf: buf, Option: &Option{}}, 0, 0, unsafe.Pointer(&bv))
	okB := errB == nil && vEndOK(buf, cur)
	bsz := int64(t.Param("BS"))
	s := &Stream{r: &vChunkReader{t: t, data: data, max: t.Param("R")}, bufSize: bsz, buf: make([]byte, bsz), Option: &Option{}}
	okS := false
	if s.PrepareForDecode() == nil {
		if dec.DecodeStream(s, 0, unsafe.Pointer(&sv)) == nil {
			s.Reset()
			okS = s.PrepareForDecode() == io.EOF
		}
	}
	t.ObserveBool("buffer", okB)
	t.ObserveBool("stream", okS)
	strict := verifref.ValidJSON(data, verifref.Relax{})
	kf := verifrt.And(okB != okS, !strict)
	t.Known("D6-D7-stream-and-buffer-verdicts-differ-on-invalid-text", kf)
	t.Assert("same-verdict", verifrt.Or(okB == okS, kf))
	if okB && okS {
		t.Assert("same-value", bv == sv)
	}
	t.Cover("both-accept", verifrt.And(okB, okS))
}

type vdW struct {
	A int    `json:"a"`
	B string `json:"b"`
	C bool   `json:"c"`
	N *int   `json:"n"`
}

// document templates: '#' = a symbolic digit 1-9, '?' = a symbolic lower-case letter
var c09Templates = []string{
	`{"a":#,"b":"?\n?","c":true}`,
	`{ "x" : "s\"t" , "a" : -# , "n" : null }`,
	`{"zz":[1,{"y":"}"}], "b" : "\ud83d\nde0#" ,"c":false} `,
	` {"b":"\ud83d\ude0#","x":{"k":"v\\"},"a":#}`,
	`{"c"` + "\n" + `:` + "\t" + `false ,"a" : #` + "\r" + `}`,
	// raw multi-byte characters (2, 3 and 4 bytes) in a value and in an unknown key
	`{"b":"é€😀?","a":#}`,
	`{"é€":"😀","b":"?é"}`,
	// an unknown member whose number is followed by white space; a key spelled with an escape
	`{"unknown":  1234 ,"a":#}`,
	`{"\u0062":"?","a":#}`,
}

// Longer, realistic documents (whitespace in every legal place, unknown members
// with nested values and escapes, surrogate escapes, null/bool/negative numbers)
// with symbolic digits/letters and EVERY chunking with up to R free boundaries:
// the stream decoder must produce the buffer decoder's result.
func H_C09_stream_templates(t *verifrt.T) {
	tpl := c09Templates[t.Choice("template", len(c09Templates))]
	data := make([]byte, len(tpl))
	for i := 0; i < len(tpl); i++ {
		switch tpl[i] {
		case '#':
			d := t.Byte("digit")
			t.Assume(verifrt.And(d >= '1', d <= '9'))
			data[i] = d
		case '?':
			c := t.Byte("letter")
			t.Assume(verifrt.And(c >= 'a', c <= 'z'))
			data[i] = c
		default:
			data[i] = tpl[i]
		}
	}
	n := len(data)
	dec, err := CompileToGetDecoder(vTypeOf(new(vdW)))
	t.Assume(err == nil)
	var bv, sv vdW
	buf := make([]byte, n+1)
	copy(buf, data)
	cur, errB := dec.Decode(&RuntimeContext{Buf: buf, Option: &Option{}}, 0, 0, unsafe.Pointer(&bv))
	okB := errB == nil && vEndOK(buf, cur)
	bsz := int64(t.Param("BS"))
	s := &Stream{r: &vChunkReader{t: t, data: data, max: t.Param("R")}, bufSize: bsz, buf: make([]byte, bsz), Option: &Option{}}
	okS := false
	if s.PrepareForDecode() == nil {
		if dec.DecodeStream(s, 0, unsafe.Pointer(&sv)) == nil {
			s.Reset()
			okS = s.PrepareForDecode() == io.EOF
		}
	}
	t.ObserveBool("buffer", okB)
	t.ObserveBool("stream", okS)
	t.Assert("valid-template-accepted-by-buffer-decoder", okB)
	t.Assert("same-verdict", okB == okS)
	if okB && okS {
		t.Assert("same-value", verifrt.And(bv.A == sv.A, bv.B == sv.B, bv.C == sv.C, (bv.N == nil) == (sv.N == nil)))
	}
}
