//go:build verif

package decoder

import (
	"unsafe"

	"github.com/goccy/go-json/internal/runtime"
	"github.com/goccy/go-json/internal/verifrt"
)

func init() {
	VerifHarnesses["H_C14_dec_cache_index"] = H_C14_dec_cache_index
}

type vdA struct{ A int }
type vdB struct{ B string }
type vdC struct{ C bool }

func vdType(v interface{}) *runtime.Type {
	return (*emptyInterface)(unsafe.Pointer(&v)).typ
}

// Decoder twin of encoder.H_C14_cache_index: the cache window is ARBITRARY
// within the post-condition of runtime.AnalyzeTypeAddr; three real types
// (**vdA, **vdB, **vdC: the decoder for **T is a ptrDecoder that records T)
// are requested in the order A,B,A,C,B: each call must return the decoder
// compiled for the requested type and no cache index may leave the slice.
func H_C14_dec_cache_index(t *verifrt.T) {
	initOnce.Do(func() {}) // mark initialised: the window below replaces AnalyzeTypeAddr's result
	shift := uintptr([]int{0, 5, 6}[t.Choice("shift", 3)])
	n := t.Choice("cache-len", 4) + 1
	ta, tb, tc := vdType((**vdA)(nil)), vdType((**vdB)(nil)), vdType((**vdC)(nil))
	ea, eb, ec := vdType(vdA{}), vdType(vdB{}), vdType(vdC{})
	pa, pb, pc := uintptr(unsafe.Pointer(ta)), uintptr(unsafe.Pointer(tb)), uintptr(unsafe.Pointer(tc))
	base := pa - uintptr(t.U64("base-below-A"))
	rng := uintptr(t.U64("range"))
	t.Assume(rng>>shift+1 == uintptr(n))
	t.Assume(base <= base+rng) // no wrap
	typeAddr = &runtime.TypeAddr{BaseTypeAddr: base, MaxTypeAddr: base + rng, AddrRange: rng, AddrShift: shift}
	cachedDecoder = make([]Decoder, n)
	mask := uintptr(1)<<shift - 1
	for _, p := range []uintptr{pa, pb, pc} {
		inside := verifrt.And(p >= base, p <= base+rng)
		// contract: a type inside the window sits on the window's grid
		t.Assume(verifrt.Implies(inside, (p-base)&mask == 0))
	}
	req := []*runtime.Type{ta, tb, ta, tc, tb}
	want := []*runtime.Type{ea, eb, ea, ec, eb}
	for i := range req {
		dec, err := CompileToGetDecoder(req[i])
		t.Assert("compiles", err == nil)
		if err == nil {
			pd, ok := dec.(*ptrDecoder)
			t.Assert("decoder-is-for-the-requested-type", ok)
			if ok {
				t.Assert("decoder-is-for-the-requested-type", pd.typ == want[i])
			}
		}
	}
	t.Cover("fast-path", verifrt.And(pa >= base, pa <= base+rng))
	t.Cover("slow-path", pa > base+rng)
	t.Cover("below-window", pa < base)
}

