//go:build verif

package decoder

import (
	"unsafe"

	"github.com/goccy/go-json/internal/verifref"
	"github.com/goccy/go-json/internal/verifrt"
)

func init() {
	VerifHarnesses["H_C17_decode_string"] = H_C17_decode_string
	VerifHarnesses["H_C17_decode_units"] = H_C17_decode_units
}

// c17CheckDecode: buf = '"' + body + NUL. Compares stringDecoder.decodeByte
// with the RFC string reader.
func c17CheckDecode(t *verifrt.T, buf []byte) {
	n := len(buf) - 1
	orig := make([]byte, n)
	copy(orig, buf[:n])
	d := newStringDecoder("", "")
	val, cur, err := d.decodeByte(buf, 0)
	tok := verifref.StringLiteral(orig)
	accepted := err == nil
	and, implies := verifrt.And, verifrt.Implies
	t.ObserveBool("accepted", accepted)
	if accepted {
		t.Observe("cur", uint64(cur))
		t.ObserveBytes("val", val)
	}
	t.Assert("accept-only-valid-literal", implies(accepted, tok.OK))
	t.Assert("valid-literal-accepted", implies(tok.OK, accepted))
	good := and(accepted, tok.OK)
	t.Assert("cursor-after-closing-quote", implies(good, int(cur) == tok.End))
	if accepted && tok.OK {
		t.Assert("value-as-encoding-json", verifref.BytesEq(val, tok.Value))
	}
	t.Cover("accepted-escaped", and(accepted, tok.Escaped))
	t.Cover("accepted-plain", and(accepted, !tok.Escaped))
	t.Cover("rejected", !accepted)
}

// O17.3a: all byte strings of length N as literal body.
func H_C17_decode_string(t *verifrt.T) {
	n := t.Param("N")
	body := t.Bytes("body", n)
	buf := make([]byte, 0, n+2)
	buf = append(buf, '"')
	for i := 0; i < n; i++ {
		t.Assume(body[i] != 0)
		buf = append(buf, body[i])
	}
	buf = append(buf, 0)
	c17CheckDecode(t, buf)
}

// O17.3b: literal built from K units, each one of: symbolic ASCII byte,
// backslash + symbolic byte, \u + 4 symbolic bytes, closing quote. Longer
// literals with every escape class; the surrogate logic sees every hex value.
func H_C17_decode_units(t *verifrt.T) {
	k := t.Param("K")
	buf := make([]byte, 0, 6*k+3)
	buf = append(buf, '"')
	for u := 0; u < k; u++ {
		switch t.Choice("unit", 4) {
		case 0:
			c := t.Byte("c")
			t.Assume(verifrt.And(c != 0, c < 0x80))
			buf = append(buf, c)
		case 1:
			c := t.Byte("e")
			t.Assume(c != 0)
			buf = append(buf, '\\', c)
		case 2:
			buf = append(buf, '\\', 'u')
			for i := 0; i < 4; i++ {
				h := t.Byte("h")
				if i < t.Param("HEXFREE") {
					t.Assume(h != 0)
				} else {
					t.Assume(verifrt.And(h >= '0', h <= '9'))
				}
				buf = append(buf, h)
			}
		case 3:
			buf = append(buf, '"')
		}
	}
	buf = append(buf, '"', 0)
	c17CheckDecode(t, buf)
}

// a TextUnmarshaler destination: string literals reach it through
// unmarshalTextDecoder (skipValue + unquoteBytes), a separate unescaper
type vdTU struct{ V []byte }

func (u *vdTU) UnmarshalText(b []byte) error {
	u.V = append([]byte{}, b...)
	return nil
}

func init() {
	VerifHarnesses["H_C17_decode_text_units"] = H_C17_decode_text_units
}

// O17.3c: the unit family of H_C17_decode_units decoded into a TextUnmarshaler
// (buffer mode) and as the key of a map[TextUnmarshaler-key]: every VALID
// literal is accepted and hands UnmarshalText the value encoding/json hands it.
func H_C17_decode_text_units(t *verifrt.T) {
	k := t.Param("K")
	buf := make([]byte, 0, 6*k+3)
	buf = append(buf, '"')
	for u := 0; u < k; u++ {
		switch t.Choice("unit", 3) {
		case 0:
			c := t.Byte("c")
			t.Assume(verifrt.And(c >= 0x20, c < 0x80, c != '"', c != '\\'))
			buf = append(buf, c)
		case 1:
			c := t.Byte("e")
			t.Assume(verifrt.Or(c == '"', c == '\\', c == '/', c == 'b', c == 'f', c == 'n', c == 'r', c == 't'))
			buf = append(buf, '\\', c)
		case 2:
			buf = append(buf, '\\', 'u')
			for i := 0; i < 4; i++ {
				h := t.Byte("h")
				if i < t.Param("HEXFREE") {
					t.Assume(verifrt.Or(verifrt.And(h >= '0', h <= '9'), verifrt.And(h >= 'a', h <= 'f'), verifrt.And(h >= 'A', h <= 'F')))
				} else {
					t.Assume(verifrt.And(h >= '0', h <= '9'))
				}
				buf = append(buf, h)
			}
		}
	}
	buf = append(buf, '"', 0)
	n := len(buf) - 1
	orig := make([]byte, n)
	copy(orig, buf[:n])
	tok := verifref.StringLiteral(orig)
	t.Assert("family-literal-is-valid", verifrt.And(tok.OK, tok.End == n))
	dec, err := CompileToGetDecoder(vTypeOf(new(vdTU)))
	t.Assume(err == nil)
	var dst vdTU
	cur, derr := dec.Decode(&RuntimeContext{Buf: buf, Option: &Option{}}, 0, 0, unsafe.Pointer(&dst))
	t.ObserveBool("accepted", derr == nil)
	t.Assert("valid-literal-accepted", derr == nil)
	if derr == nil {
		t.ObserveBytes("val", dst.V)
		t.Assert("cursor-after-closing-quote", int(cur) == n)
		t.Assert("text-value-as-encoding-json", verifref.BytesEq(dst.V, tok.Value))
	}
}
