//go:build verif

package decoder

import (
	"unsafe"

	"github.com/goccy/go-json/internal/runtime"
	"github.com/goccy/go-json/internal/verifref"
	"github.com/goccy/go-json/internal/verifrt"
)

func vTypeOf(v interface{}) *runtime.Type { return (*emptyInterface)(unsafe.Pointer(&v)).typ }

// docWithNul returns n symbolic bytes followed by the NUL sentinel every
// caller of the buffer-mode decoders appends, plus the n-byte prefix.
func docWithNul(t *verifrt.T, name string, n int) (buf []byte, doc []byte) {
	buf = t.BytesCap(name, n, n+1)
	doc = buf
	buf = append(buf, 0)
	return buf, doc
}

const canary64 = 0x5a5a5a5a5a5a5a5a

// O16.2 (signed): for every byte string of the given length, the typed int
// decoder accepts exactly the RFC integer tokens that fit the destination,
// stores the exact value and returns the cursor just past the token.
func H_C16_parse_int(t *verifrt.T) {
	kinds := []interface{}{int8(0), int16(0), int32(0), int64(0), int(0)}
	bitsOf := []uint{8, 16, 32, 64, 64}
	ki := t.Choice("kind", len(kinds))
	typ := vTypeOf(kinds[ki])
	bits := bitsOf[ki]
	n := t.Param("N")
	buf, doc := docWithNul(t, "doc", n)
	// the claim quantifies over documents: the input contains no NUL itself (D5 is C05's business)
	for i := 0; i < n; i++ {
		t.Assume(doc[i] != 0)
	}
	dst := int64(canary64)
	d := newIntDecoder(typ, "", "", func(p unsafe.Pointer, v int64) { *(*int64)(p) = v })
	cur, err := d.Decode(&RuntimeContext{Buf: buf, Option: &Option{}}, 0, 0, unsafe.Pointer(&dst))
	accepted := err == nil
	t.ObserveBool("accepted", accepted)
	if accepted {
		t.Observe("cur", uint64(cur))
		t.Observe("dst", uint64(dst))
	}
	checkIntResult(t, doc, bits, accepted, cur, dst)
}

// checkIntResult: shared assertions of the signed-int harnesses.
func checkIntResult(t *verifrt.T, doc []byte, bits uint, accepted bool, cur int64, dst int64) {
	tok := verifref.IntToken(doc)
	val, fits := tok.FitsInt(bits)
	and, or, implies := verifrt.And, verifrt.Or, verifrt.Implies
	// recorded finding classes = named relaxations of the reference
	kfBareMinus := and(accepted, tok.BareMinus, dst == 0, int(cur) == tok.LaxEnd)
	kfLeadZero := and(accepted, tok.LeadingZero, int(cur) == tok.LaxEnd)
	kfWrap := and(accepted, tok.OK, !tok.Null, !tok.LeadingZero, !fits, bits == 64, int(cur) == tok.End, tok.End-tok.Start <= 20)
	t.Known("D2-bare-minus-decodes-as-zero", kfBareMinus)
	t.Known("D2-minus-leading-zero-accepted", kfLeadZero)
	t.Known("D1-int64-wraparound-accepted", kfWrap)
	kf := or(kfBareMinus, kfLeadZero, kfWrap)
	valid := and(tok.OK, or(tok.Null, fits))
	t.Assert("accept-only-valid-int", implies(accepted, or(kf, valid)))
	exact := and(accepted, tok.OK, !kf)
	t.Assert("cursor-after-token", implies(exact, int(cur) == tok.End))
	t.Assert("null-leaves-destination", implies(and(exact, tok.Null), dst == int64(canary64)))
	t.Assert("value-exact", implies(and(exact, !tok.Null), dst == val))
	// a token followed by further digits ("-0" + digits) makes the document invalid whatever the decoder does
	t.Assert("valid-fitting-int-accepted", implies(and(valid, !tok.LeadingZero), accepted))
	t.Assert("reject-leaves-destination", implies(!accepted, dst == int64(canary64)))
	t.Cover("accepted-int", and(accepted, tok.OK, !tok.Null))
	t.Cover("accepted-null", and(accepted, tok.Null))
	t.Cover("rejected-range", and(!accepted, tok.OK, !tok.Null, !fits))
	t.Cover("rejected-syntax", and(!accepted, !tok.OK))
	t.Cover("accepted-19-digits", and(accepted, tok.OK, tok.End-tok.Start >= 19))
}

// O16.2 long literals: ws{0,1} '-'? digit{nd} trailer, digits symbolic
// (every digit value), trailer = one arbitrary non-NUL byte. Covers the
// 64-bit overflow boundary and the length test for all digit strings.
func H_C16_parse_int_long(t *verifrt.T) {
	kinds := []interface{}{int8(0), int16(0), int32(0), int64(0), int(0)}
	bitsOf := []uint{8, 16, 32, 64, 64}
	ki := t.Choice("kind", len(kinds))
	typ := vTypeOf(kinds[ki])
	bits := bitsOf[ki]
	ws := t.Choice("ws", t.Param("WS"))
	neg := t.Choice("neg", 2)
	nd := t.Param("MIND") + t.Choice("digits", t.Param("MAXD")-t.Param("MIND")+1)
	n := ws + neg + nd + 1
	buf, doc := docWithNul(t, "doc", n)
	i := 0
	if ws == 1 {
		t.Assume(verifrt.Or(doc[0] == ' ', doc[0] == '\n', doc[0] == '\t', doc[0] == '\r'))
		i++
	}
	if neg == 1 {
		t.Assume(doc[i] == '-')
		i++
	}
	for k := 0; k < nd; k++ {
		t.Assume(verifrt.And(doc[i+k] >= '0', doc[i+k] <= '9'))
	}
	t.Assume(doc[n-1] != 0)
	dst := int64(canary64)
	d := newIntDecoder(typ, "", "", func(p unsafe.Pointer, v int64) { *(*int64)(p) = v })
	cur, err := d.Decode(&RuntimeContext{Buf: buf, Option: &Option{}}, 0, 0, unsafe.Pointer(&dst))
	t.ObserveBool("accepted", err == nil)
	if err == nil {
		t.Observe("cur", uint64(cur))
		t.Observe("dst", uint64(dst))
	}
	checkIntResult(t, doc, bits, err == nil, cur, dst)
}

// ---------------------------------------------------------------- unsigned

func checkUintResult(t *verifrt.T, doc []byte, bits uint, accepted bool, cur int64, dst uint64) {
	tok := verifref.IntToken(doc)
	val, fits := tok.FitsUint(bits)
	and, or, implies := verifrt.And, verifrt.Or, verifrt.Implies
	kfWrap := and(accepted, tok.OK, !tok.Null, !tok.Neg, !fits, bits == 64, int(cur) == tok.End, tok.End-tok.Start <= 20)
	t.Known("D1-uint64-wraparound-accepted", kfWrap)
	valid := and(tok.OK, !tok.Neg, or(tok.Null, fits))
	t.Assert("accept-only-valid-uint", implies(accepted, or(kfWrap, valid)))
	exact := and(accepted, tok.OK, !kfWrap)
	t.Assert("cursor-after-token", implies(exact, int(cur) == tok.End))
	t.Assert("null-leaves-destination", implies(and(exact, tok.Null), dst == canary64))
	t.Assert("value-exact", implies(and(exact, !tok.Null), dst == val))
	t.Assert("valid-fitting-uint-accepted", implies(valid, accepted))
	t.Assert("reject-leaves-destination", implies(!accepted, dst == canary64))
	t.Cover("accepted-uint", and(accepted, tok.OK, !tok.Null))
	t.Cover("accepted-null", and(accepted, tok.Null))
	t.Cover("rejected-range", and(!accepted, tok.OK, !tok.Null, !tok.Neg, !fits))
	t.Cover("rejected-syntax", and(!accepted, !tok.OK))
	t.Cover("accepted-20-digits", and(accepted, tok.OK, tok.End-tok.Start >= 20))
}

var vUintKinds = []interface{}{uint8(0), uint16(0), uint32(0), uint64(0), uint(0), uintptr(0)}
var vUintBits = []uint{8, 16, 32, 64, 64, 64}

func H_C16_parse_uint(t *verifrt.T) {
	ki := t.Choice("kind", len(vUintKinds))
	typ := vTypeOf(vUintKinds[ki])
	n := t.Param("N")
	buf, doc := docWithNul(t, "doc", n)
	for i := 0; i < n; i++ {
		t.Assume(doc[i] != 0)
	}
	dst := uint64(canary64)
	d := newUintDecoder(typ, "", "", func(p unsafe.Pointer, v uint64) { *(*uint64)(p) = v })
	cur, err := d.Decode(&RuntimeContext{Buf: buf, Option: &Option{}}, 0, 0, unsafe.Pointer(&dst))
	t.ObserveBool("accepted", err == nil)
	if err == nil {
		t.Observe("cur", uint64(cur))
		t.Observe("dst", dst)
	}
	checkUintResult(t, doc, vUintBits[ki], err == nil, cur, dst)
}

func H_C16_parse_uint_long(t *verifrt.T) {
	ki := t.Choice("kind", len(vUintKinds))
	typ := vTypeOf(vUintKinds[ki])
	ws := t.Choice("ws", t.Param("WS"))
	nd := t.Param("MIND") + t.Choice("digits", t.Param("MAXD")-t.Param("MIND")+1)
	n := ws + nd + 1
	buf, doc := docWithNul(t, "doc", n)
	i := 0
	if ws == 1 {
		t.Assume(verifrt.Or(doc[0] == ' ', doc[0] == '\n', doc[0] == '\t', doc[0] == '\r'))
		i++
	}
	for k := 0; k < nd; k++ {
		t.Assume(verifrt.And(doc[i+k] >= '0', doc[i+k] <= '9'))
	}
	t.Assume(doc[n-1] != 0)
	dst := uint64(canary64)
	d := newUintDecoder(typ, "", "", func(p unsafe.Pointer, v uint64) { *(*uint64)(p) = v })
	cur, err := d.Decode(&RuntimeContext{Buf: buf, Option: &Option{}}, 0, 0, unsafe.Pointer(&dst))
	t.ObserveBool("accepted", err == nil)
	if err == nil {
		t.Observe("cur", uint64(cur))
		t.Observe("dst", dst)
	}
	checkUintResult(t, doc, vUintBits[ki], err == nil, cur, dst)
}

var VerifHarnesses = map[string]func(*verifrt.T){
	"H_C16_parse_int":      H_C16_parse_int,
	"H_C16_parse_int_long": H_C16_parse_int_long,
	"H_C16_parse_uint":      H_C16_parse_uint,
	"H_C16_parse_uint_long": H_C16_parse_uint_long,
}
