//go:build verif

package decoder

import (
	"unsafe"

	"github.com/goccy/go-json/internal/verifrt"
)

func init() {
	VerifHarnesses["H_C06_depth_guard"] = H_C06_depth_guard
}

type vdDeep struct {
	A []int `json:"a"`
}

// O06.2 depth guard, one inductive step: a container decoder entered at the
// nesting limit returns an error before it touches its element decoder or its
// destination, for every input. No chain of nested calls can therefore exceed
// the limit, whatever the nesting depth of the document.
func H_C06_depth_guard(t *verifrt.T) {
	n := t.Param("N")
	buf, _ := docWithNul(t, "doc", n)
	targets := []interface{}{new([]int), new(map[string]int), new(vdDeep), new([2]int), new([]interface{})}
	ti := t.Choice("target", len(targets))
	dec, err := CompileToGetDecoder(vTypeOf(targets[ti]))
	t.Assume(err == nil)
	depth := int64(maxDecodeNestingDepth) + int64(t.Choice("over", 2))
	var dst [8]uint64
	for i := range dst {
		dst[i] = canary64
	}
	_, derr := dec.Decode(&RuntimeContext{Buf: buf, Option: &Option{}}, 0, depth, unsafe.Pointer(&dst))
	t.Assert("returns-error-at-limit", derr != nil)
	for i := range dst {
		t.Assert("destination-untouched", dst[i] == canary64)
	}
	// stream twin
	s := &Stream{r: &vChunkReader{t: t, data: buf[:n], max: 0}, bufSize: 8, buf: make([]byte, 8), Option: &Option{}}
	serr := dec.DecodeStream(s, depth, unsafe.Pointer(&dst))
	t.Assert("stream-returns-error-at-limit", serr != nil)
	for i := range dst {
		t.Assert("stream-destination-untouched", dst[i] == canary64)
	}
}
