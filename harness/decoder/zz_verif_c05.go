//go:build verif

package decoder

import (
	"unsafe"

	"github.com/goccy/go-json/internal/verifref"
	"github.com/goccy/go-json/internal/verifrt"
)

func init() {
	VerifHarnesses["H_C05_iface_doc"] = H_C05_iface_doc
	VerifHarnesses["H_C05_literals"] = H_C05_literals
}

// vEndOK mirrors json.validateEndBuf: only whitespace up to the NUL sentinel.
func vEndOK(buf []byte, cursor int64) bool {
	for {
		switch buf[cursor] {
		case ' ', '\t', '\n', '\r':
			cursor++
			continue
		case 0:
			// only the sentinel behind the input ends it
			return cursor == int64(len(buf))-1
		}
		return false
	}
}

// c05Verdicts asserts the acceptance sandwich RFC ⊆ accepted ⊆ RFC+listed relaxations.
func c05Verdicts(t *verifrt.T, doc []byte, accepted bool) {
	strict := verifref.ValidJSON(doc, verifref.Relax{})
	lax := strict // every recorded relaxation of this destination is repaired
	and, implies := verifrt.And, verifrt.Implies
	t.Assert("accept-only-listed-language", implies(accepted, lax))
	// a number outside the float64 range is an error for this destination in encoding/json too
	inRange := true
	if strict {
		inRange = !verifref.NumberOutOfRange(doc)
	}
	t.Assert("valid-json-accepted", implies(verifrt.And(strict, inRange), accepted))
	t.Cover("out-of-range-number-rejected", verifrt.And(strict, !inRange, !accepted))
	t.Cover("accepted-valid", and(accepted, strict))
	t.Cover("rejected-invalid", and(!accepted, !lax))
}

// O05.3: whole documents into interface{} (buffer mode): every byte string
// of length N.
func H_C05_iface_doc(t *verifrt.T) {
	n := t.Param("N")
	buf, alias := docWithNul(t, "doc", n)
	doc := make([]byte, n) // the decoder unescapes strings in place: keep the original text
	copy(doc, alias)
	d := NewPathDecoder()
	var v interface{}
	ctx := &RuntimeContext{Buf: buf, Option: &Option{}}
	cur, err := d.Decode(ctx, 0, 0, unsafe.Pointer(&v))
	accepted := err == nil && vEndOK(buf, cur)
	t.ObserveBool("accepted", accepted)
	c05Verdicts(t, doc, accepted)
}

// literal family: documents of N bytes whose first byte is t, f or n (optionally
// inside an array), all other bytes free: every truncation and corruption of
// true / false / null.
func H_C05_literals(t *verifrt.T) {
	n := t.Param("N")
	buf, alias := docWithNul(t, "doc", n)
	first := 0
	if t.Choice("in-array", 2) == 1 {
		t.Assume(alias[0] == '[')
		first = 1
	}
	t.Assume(verifrt.Or(alias[first] == 't', alias[first] == 'f', alias[first] == 'n'))
	doc := make([]byte, n)
	copy(doc, alias)
	d := NewPathDecoder()
	var v interface{}
	cur, err := d.Decode(&RuntimeContext{Buf: buf, Option: &Option{}}, 0, 0, unsafe.Pointer(&v))
	accepted := err == nil && vEndOK(buf, cur)
	t.ObserveBool("accepted", accepted)
	c05Verdicts(t, doc, accepted)
}
