//go:build verif

package encoder

import (
	"unsafe"

	"github.com/goccy/go-json/internal/verifref"
	"github.com/goccy/go-json/internal/verifrt"
)

var VerifHarnesses = map[string]func(*verifrt.T){
	"H_C16_print_int":  H_C16_print_int,
	"H_C16_print_uint": H_C16_print_uint,
}

func bytesEq(a, b []byte) bool { return string(a) == string(b) }

// the two-digit tables are rewritten by their arithmetic meaning after the
// engine has checked the formula against every entry of the current tables
func c16Tables(t *verifrt.T) {
	le := t.TableFormula(unsafe.Pointer(&intLELookup), 2, 100, func(j uint64) uint64 { return ('0' + j/10) + ('0'+j%10)*256 })
	be := t.TableFormula(unsafe.Pointer(&intBELookup), 2, 100, func(j uint64) uint64 { return ('0' + j%10) + ('0'+j/10)*256 })
	t.Cover("table-formula-le", le)
	t.Cover("table-formula-be", be)
}

// O16.1: AppendInt prints exactly the decimal text of the value the opcode
// points at, for every 64-bit memory word and every NumBitSize.
func H_C16_print_int(t *verifrt.T) {
	c16Tables(t)
	bits := []uint8{8, 16, 32, 64}[t.Choice("bits", 4)]
	word := t.U64("word")
	mem := new(uint64)
	*mem = word
	p := uintptr(unsafe.Pointer(mem))
	code := &Opcode{NumBitSize: bits}
	out := AppendInt(nil, make([]byte, 0, 32), p, code)
	var v int64
	switch bits {
	case 8:
		v = int64(int8(word))
	case 16:
		v = int64(int16(word))
	case 32:
		v = int64(int32(word))
	default:
		v = int64(word)
	}
	ref := verifref.Itoa(v)
	t.ObserveBytes("out", out)
	t.Assert("print-exact", bytesEq(out, ref))
	t.Cover("negative", v < 0)
	t.Cover("long", len(out) >= 19)
}

func H_C16_print_uint(t *verifrt.T) {
	c16Tables(t)
	bits := []uint8{8, 16, 32, 64}[t.Choice("bits", 4)]
	word := t.U64("word")
	mem := new(uint64)
	*mem = word
	p := uintptr(unsafe.Pointer(mem))
	code := &Opcode{NumBitSize: bits}
	out := AppendUint(nil, make([]byte, 0, 32), p, code)
	var v uint64
	switch bits {
	case 8:
		v = uint64(uint8(word))
	case 16:
		v = uint64(uint16(word))
	case 32:
		v = uint64(uint32(word))
	default:
		v = word
	}
	ref := verifref.Utoa(v)
	t.ObserveBytes("out", out)
	t.Assert("print-exact", bytesEq(out, ref))
	t.Cover("long", len(out) >= 20)
}
