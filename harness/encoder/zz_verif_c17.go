//go:build verif

package encoder

import (
	"github.com/goccy/go-json/internal/verifref"
	"github.com/goccy/go-json/internal/verifrt"
)

func init() {
	VerifHarnesses["H_C17_escape_free"] = H_C17_escape_free
	VerifHarnesses["H_C17_escape_window"] = H_C17_escape_window
	VerifHarnesses["H_C17_escape_utf8"] = H_C17_escape_utf8
}

func c17Check(t *verifrt.T, s []byte, flags int) {
	html, norm := flags&1 != 0, flags&2 != 0
	var f OptionFlag
	if html {
		f |= HTMLEscapeOption
	}
	if norm {
		f |= NormalizeUTF8Option
	}
	ctx := &RuntimeContext{Option: &Option{Flag: f}}
	out := AppendString(ctx, make([]byte, 0, 8), string(s))
	ref := verifref.EscapeRef(s, html, norm)
	t.ObserveBytes("out", out)
	tok := verifref.StringLiteral(out)
	t.Assert("literal-well-formed", tok.OK)
	t.Assert("literal-ends-at-end", tok.End == len(out))
	t.Assert("escape-equals-reference", verifref.BytesEq(out, ref))
	t.Cover("escaped-something", len(out) > len(s)+2)
	t.Cover("plain", len(out) == len(s)+2)
}

// O17.1: every byte string of length N over all 256 byte values, 4 flag
// combinations.
func H_C17_escape_free(t *verifrt.T) {
	flags := t.Choice("flags", 4)
	n := t.Param("N")
	s := t.Bytes("s", n)
	c17Check(t, s, flags)
}

// O17.2: SWAR window family: length 8..8+SPAN, plain ASCII everywhere except K
// fully symbolic bytes at enumerated positions.
func H_C17_escape_window(t *verifrt.T) {
	flags := t.Choice("flags", 4)
	n := 8 + t.Choice("len", t.Param("SPAN")+1)
	s := make([]byte, n)
	for i := range s {
		s[i] = 'a' + byte(i%26)
	}
	p1 := t.Choice("pos1", n)
	s[p1] = t.Byte("b1")
	if t.Param("K") >= 2 {
		p2 := t.Choice("pos2", n)
		t.Assume(p2 > p1)
		s[p2] = t.Byte("b2")
	}
	c17Check(t, s, flags)
}

// multi-byte UTF-8 family: PRE plain bytes, then a lead byte >= 0xC0 followed by
// three fully symbolic bytes (every 2-, 3- and 4-byte sequence, valid or not).
func H_C17_escape_utf8(t *verifrt.T) {
	flags := t.Choice("flags", 4)
	pre := t.Choice("pre", t.Param("PRE")+1)
	s := make([]byte, 0, pre+4)
	for i := 0; i < pre; i++ {
		s = append(s, 'a')
	}
	lead := t.Byte("lead")
	t.Assume(lead >= 0xc0)
	s = append(s, lead, t.Byte("c1"), t.Byte("c2"), t.Byte("c3"))
	c17Check(t, s, flags)
}
