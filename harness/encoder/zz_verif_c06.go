//go:build verif

package encoder

import (
	"github.com/goccy/go-json/internal/verifrt"
)

func init() {
	VerifHarnesses["H_C06_compact_depth_guard"] = H_C06_compact_depth_guard
}

// Depth guard of Compact/Indent, one inductive step: a container scanner entered
// at the nesting limit returns an error before it reads past its first byte or
// recurses, for every source text. No chain of nested calls can therefore be
// deeper than the limit (bounded stack), whatever the text.
func H_C06_compact_depth_guard(t *verifrt.T) {
	n := t.Param("N")
	body := t.Bytes("src", n)
	src := append(append([]byte{}, body...), 0) // NUL sentinel as Compact/Indent append it
	open := []byte{'[', '{'}[t.Choice("open", 2)]
	src[0] = open
	over := t.Choice("over", 2) // at the limit, one beyond
	var err error
	switch t.Choice("scanner", 2) {
	case 0:
		if open == '[' {
			_, _, err = compactArray(nil, src, 0, t.Choice("escape", 2) == 1, maxNestingDepth+over)
		} else {
			_, _, err = compactObject(nil, src, 0, false, maxNestingDepth+over)
		}
	case 1:
		if open == '[' {
			_, _, err = indentArray(nil, src, maxNestingDepth+over, 0, nil, []byte(" "), false)
		} else {
			_, _, err = indentObject(nil, src, maxNestingDepth+over, 0, nil, []byte(" "), false)
		}
	}
	t.Assert("returns-error-at-limit", err != nil)
}
