//go:build verif

package encoder

import (
	"unsafe"

	"github.com/goccy/go-json/internal/runtime"
	"github.com/goccy/go-json/internal/verifrt"
)

func init() {
	VerifHarnesses["H_C14_cache_index"] = H_C14_cache_index
}

type vcA struct{ A int }
type vcB struct{ B string }
type vcC struct{ C bool }

func vcTypeptr(v interface{}) uintptr {
	return uintptr(unsafe.Pointer((*emptyInterface)(unsafe.Pointer(&v)).typ))
}

// The cache window (base, range, shift) is ARBITRARY within the post-condition
// of runtime.AnalyzeTypeAddr (range = max-base, cache length = range>>shift+1,
// every type inside the window congruent to base modulo 2^shift); three real
// types are requested in sequence (A, B, A, C): each call must return the
// program compiled for the requested type, on the fast path, the slow path and
// across them, and no cache index may leave the slice.
func H_C14_cache_index(t *verifrt.T) {
	initEncoderOnce.Do(func() {}) // mark initialised: the window below replaces AnalyzeTypeAddr's result
	shift := uintptr([]int{0, 5, 6}[t.Choice("shift", 3)])
	n := t.Choice("cache-len", 4) + 1
	// the window is placed relative to the first requested type (so that a replay vector
	// keeps its meaning when type addresses differ between the engine and a native run)
	base := vcTypeptr(vcA{}) - uintptr(t.U64("base-below-A"))
	rng := uintptr(t.U64("range"))
	t.Assume(rng>>shift+1 == uintptr(n))
	t.Assume(base <= base+rng) // no wrap
	typeAddr = &runtime.TypeAddr{BaseTypeAddr: base, MaxTypeAddr: base + rng, AddrRange: rng, AddrShift: shift}
	cachedOpcodeSets = make([]*OpcodeSet, n)
	pa, pb, pc := vcTypeptr(vcA{}), vcTypeptr(vcB{}), vcTypeptr(vcC{})
	mask := uintptr(1)<<shift - 1
	for _, p := range []uintptr{pa, pb, pc} {
		inside := verifrt.And(p >= base, p <= base+rng)
		// contract: a type inside the window sits on the window's grid
		t.Assume(verifrt.Implies(inside, (p-base)&mask == 0))
	}
	ctx := &RuntimeContext{Option: &Option{}}
	for _, p := range []uintptr{pa, pb, pa, pc, pb} {
		set, err := CompileToGetCodeSet(ctx, p)
		t.Assert("compiles", err == nil)
		if err == nil {
			t.Assert("program-is-for-the-requested-type", uintptr(unsafe.Pointer(set.Type)) == p)
		}
	}
	t.Cover("fast-path", verifrt.And(pa >= base, pa <= base+rng))
	t.Cover("slow-path", pa > base+rng)
	t.Cover("below-window", pa < base)
}

// VerifSetup creates the three type tokens consecutively (48 bytes apart), so
// that two of them can fall into one 64-byte cache bucket.
func VerifSetup() {
	_ = vcTypeptr(vcA{})
	_ = vcTypeptr(vcB{})
	_ = vcTypeptr(vcC{})
}
