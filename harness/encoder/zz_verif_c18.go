//go:build verif

package encoder

import (
	"bytes"

	"github.com/goccy/go-json/internal/verifref"
	"github.com/goccy/go-json/internal/verifrt"
)

func init() {
	VerifHarnesses["H_C18_compact"] = H_C18_compact
	VerifHarnesses["H_C18_indent"] = H_C18_indent
}

// c18Alphabet: with ALPHA=2 the text starts with "\u (rest arbitrary); with ALPHA=1 the source bytes are restricted to the structural
// alphabet [ ] { } " , : 1 space backslash (longer texts stay tractable).
func c18Alphabet(t *verifrt.T, src []byte) {
	if t.Param("ALPHA") == 2 {
		// texts that start with the three bytes "\u : reaches the \uXXXX scanner
		t.Assume(verifrt.And(len(src) >= 3, src[0] == '"', src[1] == '\\', src[2] == 'u'))
		return
	}
	if t.Param("ALPHA") != 1 {
		return
	}
	for i := range src {
		c := src[i]
		t.Assume(verifrt.Or(c == '[', c == ']', c == '{', c == '}', c == '"', c == ',', c == ':', c == '1', c == ' ', c == '\\'))
	}
}

func c18Verdict(t *verifrt.T, src []byte, accepted bool) (strict bool) {
	strict = verifref.ValidJSON(src, verifref.Relax{})
	t.Assert("accept-only-valid-json", verifrt.Implies(accepted, strict))
	t.Assert("valid-json-accepted", verifrt.Implies(strict, accepted))
	return strict
}

// Compact(dst, src): all src of length N, destination holding PRE arbitrary
// bytes already, escape flag enumerated.
func H_C18_compact(t *verifrt.T) {
	n := t.Param("N")
	esc := t.Choice("escape", 2) == 1
	pre := t.Choice("pre", t.Param("PRE")+1)
	src := t.Bytes("src", n)
	c18Alphabet(t, src)
	orig := make([]byte, n)
	copy(orig, src)
	before := t.Bytes("dst", pre)
	var buf bytes.Buffer
	buf.Write(before)
	err := Compact(&buf, src, esc)
	accepted := err == nil
	t.ObserveBool("accepted", accepted)
	t.ObserveBytes("dst", buf.Bytes())
	strict := c18Verdict(t, orig, accepted)
	t.Assert("source-unchanged", verifref.BytesEq(src, orig))
	if !accepted {
		t.Assert("error-leaves-destination", verifref.BytesEq(buf.Bytes(), before))
		return
	}
	if strict {
		want := append(append([]byte{}, before...), verifref.RefCompact(orig, esc)...)
		dup := append(append(append([]byte{}, before...), before...), verifref.RefCompact(orig, esc)...)
		got := buf.Bytes()
		kfDup := verifrt.And(pre > 0, verifref.BytesEq(got, dup))
		t.Known("D11-compact-duplicates-existing-destination-content", kfDup)
		t.Assert("appends-exactly-the-compacted-text", verifrt.Or(kfDup, verifref.BytesEq(got, want)))
		// idempotence (relational)
		var again bytes.Buffer
		c2 := verifref.RefCompact(orig, esc)
		err2 := Compact(&again, c2, esc)
		t.Assert("idempotent", verifrt.And(err2 == nil, verifref.BytesEq(again.Bytes(), c2)))
	}
	t.Cover("accepted-valid", strict)
}

var c18Prefixes = [][2]string{{"", ""}, {"", " "}, {">", "\t"}, {"é", "  "}}

func H_C18_indent(t *verifrt.T) {
	n := t.Param("N")
	pi := c18Prefixes[t.Choice("prefix-indent", t.Param("PI"))]
	pre := t.Choice("pre", t.Param("PRE")+1)
	src := t.Bytes("src", n)
	c18Alphabet(t, src)
	orig := make([]byte, n)
	copy(orig, src)
	before := t.Bytes("dst", pre)
	var buf bytes.Buffer
	buf.Write(before)
	err := Indent(&buf, src, pi[0], pi[1])
	accepted := err == nil
	t.ObserveBool("accepted", accepted)
	t.ObserveBytes("dst", buf.Bytes())
	strict := c18Verdict(t, orig, accepted)
	t.Assert("source-unchanged", verifref.BytesEq(src, orig))
	if !accepted {
		t.Assert("error-leaves-destination", verifref.BytesEq(buf.Bytes(), before))
		return
	}
	if strict {
		ref := verifref.RefIndent(orig, []byte(pi[0]), []byte(pi[1]), true)
		want := append(append([]byte{}, before...), ref...)
		t.Assert("appends-exactly-the-indented-text", verifref.BytesEq(buf.Bytes(), want))
	}
	t.Cover("accepted-valid", strict)
}
