//go:build verif

// Package verifrt is the dual-mode harness runtime. Natively its methods read
// a replay vector; inside the gosym engine every method of *T is intercepted
// (the bodies below are never executed symbolically).
package verifrt

import (
	"fmt"
	"unsafe"
)

type T struct {
	Vec        []uint64
	pos        int
	Params     map[string]int
	Fails      []string
	KnownIDs   []string
	Covers     []string
	Obs        []string
	allowPanic bool
	tracked    []trackedRange
	crashID    string
	crashCond  bool
}

type stop struct{ why string }

func (t *T) pop() uint64 {
	var v uint64
	if t.pos < len(t.Vec) {
		v = t.Vec[t.pos]
	}
	t.pos++
	return v
}

func (t *T) Byte(name string) byte     { return byte(t.pop()) }
func (t *T) U8(name string) uint8      { return uint8(t.pop()) }
func (t *T) U16(name string) uint16    { return uint16(t.pop()) }
func (t *T) U32(name string) uint32    { return uint32(t.pop()) }
func (t *T) U64(name string) uint64    { return t.pop() }
func (t *T) I64(name string) int64     { return int64(t.pop()) }
func (t *T) Bool(name string) bool     { return t.pop()&1 == 1 }
func (t *T) Symbolic() bool            { return false }
func (t *T) AllowPanic()               { t.allowPanic = true }
func (t *T) Param(name string) int {
	v, ok := t.Params[name]
	if !ok {
		panic("missing harness parameter " + name)
	}
	return v
}

// TableFormula asks the engine to rewrite symbolic-index loads from the
// constant table at ptr (count elements of elemSize bytes) by f(index). The
// engine first checks f(i) == table[i] for every i against the current
// contents; natively the same check is performed. Returns whether the formula
// matches (if not, the engine keeps the raw table).
func (t *T) TableFormula(ptr unsafe.Pointer, elemSize, count int, f func(i uint64) uint64) bool {
	for i := 0; i < count; i++ {
		var v uint64
		p := unsafe.Pointer(uintptr(ptr) + uintptr(i*elemSize))
		switch elemSize {
		case 1:
			v = uint64(*(*uint8)(p))
		case 2:
			v = uint64(*(*uint16)(p))
		case 4:
			v = uint64(*(*uint32)(p))
		case 8:
			v = *(*uint64)(p)
		}
		mask := ^uint64(0)
		if elemSize < 8 {
			mask = 1<<(uint(elemSize)*8) - 1
		}
		if f(uint64(i))&mask != v {
			return false
		}
	}
	return true
}

// SameObject: do p and q point into the same allocation? In the engine this is
// object identity in the memory model; natively buffers are compared by the
// address ranges registered with Track.
func (t *T) SameObject(p, q unsafe.Pointer) bool {
	for _, r := range t.tracked {
		lo, hi := uintptr(r.p), uintptr(r.p)+uintptr(r.n)
		pin := uintptr(p) >= lo && uintptr(p) < hi
		qin := uintptr(q) >= lo && uintptr(q) < hi
		if pin && qin {
			return true
		}
	}
	return false
}

type trackedRange struct {
	p unsafe.Pointer
	n int
}

// Track registers a caller-owned buffer for native SameObject queries.
func (t *T) Track(p unsafe.Pointer, n int) { t.tracked = append(t.tracked, trackedRange{p, n}) }

// And / Or / Implies / Not: branch-free boolean connectives for harness
// conditions (the engine builds one term instead of forking on each operand).
func And(a, b bool, more ...bool) bool {
	r := a && b
	for _, m := range more {
		r = r && m
	}
	return r
}

func Or(a, b bool, more ...bool) bool {
	r := a || b
	for _, m := range more {
		r = r || m
	}
	return r
}

func Implies(a, b bool) bool { return !a || b }

// ParamOr: a harness parameter with a default.
func (t *T) ParamOr(name string, def int) int {
	if v, ok := t.Params[name]; ok {
		return v
	}
	return def
}

// Choice is an ENUMERATED dimension: the engine forks one path per value.
func (t *T) Choice(name string, n int) int {
	v := t.pop()
	if n <= 0 {
		return 0
	}
	return int(v % uint64(n))
}

// Bytes returns exactly n arbitrary bytes (len == cap == n).
func (t *T) Bytes(name string, n int) []byte {
	b := make([]byte, n)
	for i := range b {
		b[i] = byte(t.pop())
	}
	return b
}

// BytesCap: n arbitrary bytes in a buffer of capacity c.
func (t *T) BytesCap(name string, n, c int) []byte {
	b := make([]byte, n, c)
	for i := range b {
		b[i] = byte(t.pop())
	}
	return b
}

func (t *T) String(name string, n int) string { return string(t.Bytes(name, n)) }

func (t *T) Assume(c bool) {
	if !c {
		panic(stop{"assume"})
	}
}

func (t *T) Assert(id string, c bool) {
	if !c {
		t.Fails = append(t.Fails, id)
		panic(stop{"assert"})
	}
}

func (t *T) Cover(id string, c bool) {
	if c {
		t.Covers = append(t.Covers, id)
	}
}

// KnownIfCrash: if the code under test panics (or, in the engine, accesses
// memory out of bounds) later on this run while c holds, the crash belongs to
// the recorded finding id instead of being a new violation.
func (t *T) KnownIfCrash(id string, c bool) {
	t.crashID, t.crashCond = id, c
}

func (t *T) Known(id string, c bool) {
	if c {
		t.KnownIDs = append(t.KnownIDs, id)
	}
}

func (t *T) Observe(name string, v uint64) { t.Obs = append(t.Obs, fmt.Sprintf("%s=%d", name, v)) }
func (t *T) ObserveBool(name string, v bool) {
	x := 0
	if v {
		x = 1
	}
	t.Obs = append(t.Obs, fmt.Sprintf("%s=%d", name, x))
}
func (t *T) ObserveBytes(name string, b []byte)  { t.Obs = append(t.Obs, fmt.Sprintf("%s=%x", name, b)) }
func (t *T) ObserveString(name string, s string) { t.Obs = append(t.Obs, fmt.Sprintf("%s=%x", name, s)) }

// Result of one native run.
type Result struct {
	Status string   `json:"status"` // OK, ASSUME, ASSERTFAIL, PANIC
	Msg    string   `json:"msg,omitempty"`
	Fails  []string `json:"fails,omitempty"`
	Known  []string `json:"known,omitempty"`
	Covers []string `json:"covers,omitempty"`
	Obs    []string `json:"obs,omitempty"`
}

// Run executes a harness natively on a replay vector.
func Run(h func(*T), vec []uint64, params map[string]int) (res Result) {
	t := &T{Vec: vec, Params: params}
	defer func() {
		res.Fails, res.Known, res.Covers, res.Obs = t.Fails, t.KnownIDs, t.Covers, t.Obs
		if r := recover(); r != nil {
			if s, ok := r.(stop); ok {
				if s.why == "assume" {
					res.Status = "ASSUME"
				} else {
					res.Status = "ASSERTFAIL"
				}
				return
			}
			res.Status = "PANIC"
			res.Msg = fmt.Sprint(r)
			if t.crashID != "" && t.crashCond {
				res.Known = append(res.Known, t.crashID)
			} else if !t.allowPanic {
				res.Fails = append(res.Fails, "no-panic")
			}
		}
	}()
	h(t)
	res.Status = "OK"
	return
}
