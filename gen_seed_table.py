#!/usr/bin/env python3
# regenerates the seed table of DESIGN.md §9 from seeded/*/meta.json
import json, os, re
rows = []
def key(n):
    m = re.match(r'C(\d+)-(\d+)(.*)', n)
    return (int(m.group(1)), int(m.group(2)), m.group(3))
for name in sorted(os.listdir('seeded'), key=key):
    mp = os.path.join('seeded', name, 'meta.json')
    if name == 'C18-3':
        rows.append('| C18-3 | `compactAndWrite` writes before the end-of-text validation | invalid text with a valid first value | not applicable: patch conflicts with fix e8a10a3 (same lines) |')
        continue
    if not os.path.exists(mp):
        continue
    m = json.load(open(mp))
    def clip(s, n):
        s = ' '.join(str(s).split()).replace('|', '\\|')
        return s if len(s) <= n else s[:n] + '…'
    if name == 'C18-3':
        rows.append('| C18-3 | `compactAndWrite` writes before the end-of-text validation | invalid text with a valid first value | not applicable: patch conflicts with fix e8a10a3 (same lines) |')
        continue
    via = ''
    pid = m.get('property', name.split('-')[0])
    if name.endswith('-viaC09'):
        pid = 'C09'
    ex = m.get('check_exit')
    verdict = {1: '%s: ✓ detected' % pid, 0: '%s: not detected (see the -viaC09 row)' % pid if name in ('C16-2', 'C17-3') else '%s: ✗ missed' % pid, 2: '%s: inconclusive' % pid}.get(ex, str(ex))
    rows.append('| %s | %s | %s | %s |' % (name, clip(m.get('what', ''), 150), clip(m.get('needs', ''), 110), verdict))
s = open('DESIGN.md').read()
a = s.index('| seed | change | needs | verdict (quick tier) |')
b = s.index('## 10.')
s = s[:a] + '| seed | change | needs | verdict (quick tier) |\n|---|---|---|---|\n' + '\n'.join(rows) + '\n| C18-5 | json.go HTMLEscape simplified to Unmarshal + re-encode (numbers pass through float64) | integers above 2^53 | not applicable: rewrites the function replaced by fix 928daad |\n\n' + s[b:]
open('DESIGN.md', 'w').write(s)
rows_note = None
print(len(rows), 'rows')
