package main

import (
	"fmt"
	"os"
	"path/filepath"
	"sort"
	"strings"
	"sync"
	"sync/atomic"
	"time"

	"gosym/ssaexec"
)

var repoDir = envOr("VERIF_REPO", "/repo")
var verifDir = envOr("VERIF_DIR", "/verif")

func envOr(k, d string) string {
	if v := os.Getenv(k); v != "" {
		return v
	}
	return d
}

// where each harness directory is overlaid inside /repo
var overlayDirs = map[string]string{
	"verifrt":         "internal/verifrt",
	"verifref":        "internal/verifref",
	"decoder":         "internal/decoder",
	"encoder":         "internal/encoder",
	"vm":              "internal/encoder/vm",
	"vm_indent":       "internal/encoder/vm_indent",
	"vm_color":        "internal/encoder/vm_color",
	"vm_color_indent": "internal/encoder/vm_color_indent",
	"runtime":         "internal/runtime",
	"json":            ".",
}

const modPath = "github.com/goccy/go-json"

func pkgImportPath(dir string) string {
	rel := overlayDirs[dir]
	if rel == "." {
		return modPath
	}
	return modPath + "/" + rel
}

// overlayFiles returns virtual path -> real path for all harness sources.
func overlayFiles() (map[string]string, error) {
	out := map[string]string{}
	for d, rel := range overlayDirs {
		files, _ := filepath.Glob(filepath.Join(verifDir, "harness", d, "*.go"))
		for _, f := range files {
			out[filepath.Join(repoDir, rel, filepath.Base(f))] = f
		}
	}
	return out, nil
}

func loadRepo() (*ssaexec.Program, error) {
	files, err := overlayFiles()
	if err != nil {
		return nil, err
	}
	pats := []string{".", "./internal/decoder", "./internal/encoder", "./internal/encoder/vm", "./internal/encoder/vm_indent",
		"./internal/encoder/vm_color", "./internal/encoder/vm_color_indent", "./internal/runtime", "./internal/errors",
		"./internal/verifrt", "./internal/verifref"}
	tags := "verif"
	if t := os.Getenv("VERIF_EXTRA_TAGS"); t != "" {
		tags += "," + t
	}
	// A harness file that no longer compiles against the tree (a renamed
	// identifier) must not take the other harnesses down with it: drop the
	// offending overlay files and retry; the checks whose harness was dropped
	// then report "harness not found" (inconclusive).
	for attempt := 0; ; attempt++ {
		ov := map[string][]byte{}
		for v, r := range files {
			b, err := os.ReadFile(r)
			if err != nil {
				return nil, err
			}
			ov[v] = b
		}
		prog, err := ssaexec.Load(ssaexec.LoadConfig{Dir: repoDir, Patterns: pats, Overlay: ov, Tags: tags})
		if err == nil {
			return prog, nil
		}
		if attempt >= 6 {
			return nil, err
		}
		dropped := false
		for v := range files {
			base := filepath.Base(v)
			if strings.HasPrefix(base, "zz_verif_") && strings.Contains(err.Error(), v) {
				fmt.Fprintf(os.Stderr, "harness file %s does not compile against this tree and is dropped: %s\n", base, firstErrLine(err.Error(), v))
				delete(files, v)
				dropped = true
			}
		}
		if !dropped {
			return nil, err
		}
	}
}

func firstErrLine(msg, file string) string {
	for _, l := range strings.Split(msg, "\n") {
		if strings.Contains(l, file) {
			return l
		}
	}
	return ""
}

type Job struct {
	Pkg        string         `json:"pkg"`
	Func       string         `json:"func"`
	Params     map[string]int `json:"params"`
	Solver     string         `json:"solver"`
	Workers    int            `json:"-"`
	MaxPaths   int            `json:"maxpaths"`
	LoopCap    int            `json:"loopcap"`
	StepCap    int            `json:"stepcap"`
	NoFast     bool           `json:"-"`
	CrossCheck bool           `json:"-"`
	Verbose    bool           `json:"-"`
	TimeoutMs  int            `json:"solver_timeout_ms"`
	IntFirst   bool           `json:"int_first"`
	IntAssert  bool           `json:"int_assert"`
}

type JobResult struct {
	Job          Job
	Paths        int
	ByStatus     map[string]int
	Fails        []ssaexec.AssertFail
	Covers       map[string]bool
	Inconclusive []string
	Stats        ssaexec.Stats
	Obligations  map[string]int
	SolverTime   time.Duration
	SolverQueries int
	Wall         time.Duration
	Functions    []ssaexec.FuncInfo
	SampleObs    [][]ssaexec.Observation
}

func runJob(prog *ssaexec.Program, job Job) (*JobResult, error) {
	entry := prog.FindFunc(job.Pkg, job.Func)
	if entry == nil {
		return nil, fmt.Errorf("harness %s.%s not found", job.Pkg, job.Func)
	}
	if job.Workers <= 0 {
		job.Workers = 1
	}
	start := time.Now()
	res := &JobResult{Job: job, ByStatus: map[string]int{}, Covers: map[string]bool{}, Obligations: map[string]int{}}
	var mu sync.Mutex
	type item struct{ prefix []ssaexec.Decision }
	queue := make(chan item, 1<<16)
	var pending int64 = 1 // items queued or being processed
	var idle int64
	queue <- item{}
	var wg sync.WaitGroup
	var firstErr error
	var totalPaths int64
	funcs := map[string]ssaexec.FuncInfo{}
	for i := 0; i < job.Workers; i++ {
		wg.Add(1)
		go func(wid int) {
			defer wg.Done()
			w, err := ssaexec.NewWorker(prog, ssaexec.Options{LoopCap: job.LoopCap, StepCap: job.StepCap, NoFast: job.NoFast,
				CrossCheck: job.CrossCheck, SolverKind: job.Solver, SolverTimeoutMs: job.TimeoutMs, IntFirst: job.IntFirst, IntAssert: job.IntAssert})
			if err != nil {
				mu.Lock()
				if firstErr == nil {
					firstErr = err
				}
				mu.Unlock()
				// drain so that others can finish
				return
			}
			defer w.Close()
			for k, v := range job.Params {
				w.Params[k] = v
			}
			for {
				atomic.AddInt64(&idle, 1)
				it, ok := <-queue
				atomic.AddInt64(&idle, -1)
				if !ok {
					break
				}
				donate := func(prefix []ssaexec.Decision) bool {
					if atomic.LoadInt64(&idle) == 0 {
						return false
					}
					atomic.AddInt64(&pending, 1)
					select {
					case queue <- item{prefix}:
						return true
					default:
						atomic.AddInt64(&pending, -1)
						return false
					}
				}
				wantDonate := func() bool { return atomic.LoadInt64(&idle) > 0 }
				budget := 0
				if job.MaxPaths > 0 {
					budget = job.MaxPaths - int(atomic.LoadInt64(&totalPaths))
					if budget <= 0 {
						budget = 1
					}
				}
				sum := w.Explore(entry, it.prefix, budget, func(pr ssaexec.PathResult) {
					atomic.AddInt64(&totalPaths, 1)
					if job.Verbose {
						fmt.Fprintf(os.Stderr, "[w%d] path %s %s %s obs=%v\n", wid, pr.Status, pr.Msg, pr.Pos, pr.Observed)
					}
				}, wantDonate, donate)
				mu.Lock()
				res.Paths += sum.Paths
				for k, v := range sum.ByStatus {
					res.ByStatus[k] += v
				}
				for k := range sum.Covers {
					res.Covers[k] = true
				}
				res.Fails = append(res.Fails, sum.Fails...)
				res.Inconclusive = append(res.Inconclusive, sum.Inconclusive...)
				if len(res.SampleObs) < 5 {
					res.SampleObs = append(res.SampleObs, sum.SampleObs...)
				}
				mu.Unlock()
				if atomic.AddInt64(&pending, -1) == 0 {
					close(queue)
				}
			}
			mu.Lock()
			s := w.Stats
			res.Stats.Paths += s.Paths
			res.Stats.Decisions += s.Decisions
			res.Stats.FastDecided += s.FastDecided
			res.Stats.SolverChecks += s.SolverChecks
			res.Stats.Instrs += s.Instrs
			res.Stats.Unknowns += s.Unknowns
			res.Stats.CrossChecked += s.CrossChecked
			res.Stats.CrossMismatch += s.CrossMismatch
			res.Stats.IntervalDecided += s.IntervalDecided
			res.Stats.IntQueries += s.IntQueries
			res.Stats.IntDecided += s.IntDecided
			res.Stats.IntTimeNs += s.IntTimeNs
			for k, v := range w.Obligations {
				res.Obligations[k] += v
			}
			if w.Solver != nil {
				res.SolverTime += w.Solver.Time
				res.SolverQueries += w.Solver.Queries
			}
			for _, f := range w.FunctionsExecuted() {
				funcs[f.Name] = f
			}
			mu.Unlock()
		}(i)
	}
	wg.Wait()
	if firstErr != nil {
		return nil, firstErr
	}
	for _, f := range funcs {
		res.Functions = append(res.Functions, f)
	}
	sort.Slice(res.Functions, func(i, j int) bool { return res.Functions[i].Name < res.Functions[j].Name })
	res.Wall = time.Since(start)
	return res, nil
}

func printJobResult(r *JobResult) {
	fmt.Printf("harness %s.%s params=%v solver=%s\n", r.Job.Pkg, r.Job.Func, r.Job.Params, r.Job.Solver)
	fmt.Printf("  paths=%d status=%v\n", r.Paths, r.ByStatus)
	fmt.Printf("  interval-decided=%d\n", r.Stats.IntervalDecided)
	fmt.Printf("  decisions=%d fast=%d solverchecks=%d unknowns=%d instrs=%d solver_time=%v queries=%d wall=%v\n",
		r.Stats.Decisions, r.Stats.FastDecided, r.Stats.SolverChecks, r.Stats.Unknowns, r.Stats.Instrs, r.SolverTime, r.SolverQueries, r.Wall)
	if r.Stats.IntQueries > 0 {
		fmt.Printf("  int-translation queries=%d decided=%d time=%v\n", r.Stats.IntQueries, r.Stats.IntDecided, time.Duration(r.Stats.IntTimeNs))
	}
	if r.Stats.CrossChecked > 0 {
		fmt.Printf("  crosschecked=%d mismatches=%d\n", r.Stats.CrossChecked, r.Stats.CrossMismatch)
	}
	fmt.Printf("  obligations=%v\n", r.Obligations)
	fmt.Printf("  covers=%v\n", ssaexec.SortedKeys(r.Covers))
	seen := map[string]int{}
	for _, f := range r.Fails {
		k := f.Kind + " " + f.ID
		seen[k]++
		if seen[k] <= 3 {
			fmt.Printf("  FAIL %s %s: %s at %s\n     vector=%v names=%v\n", f.Kind, f.ID, f.Msg, f.Pos, f.Vector, strings.Join(f.Names, ","))
		}
	}
	for k, n := range seen {
		fmt.Printf("  fail-count %s = %d\n", k, n)
	}
	incs := map[string]int{}
	for _, s := range r.Inconclusive {
		incs[s]++
	}
	for s, n := range incs {
		fmt.Printf("  INCONCLUSIVE x%d %s\n", n, s)
	}
	for _, o := range r.SampleObs {
		fmt.Printf("  sample obs: %v\n", o)
	}
}

