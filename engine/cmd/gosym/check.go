package main

import (
	"bufio"
	"crypto/sha1"
	"encoding/json"
	"flag"
	"fmt"
	"math/rand"
	"os"
	"os/exec"
	"path/filepath"
	"sort"
	"strconv"
	"strings"
	"time"

	"gosym/smt"
	"gosym/ssaexec"
)

// Row: one harness run of a property.
type Row struct {
	Dir      string         `json:"dir"`  // harness dir (decoder, encoder, json, ...)
	Func     string         `json:"func"` // harness function
	Tier     string         `json:"tier"` // "quick", "thorough" or "" (both)
	Params   map[string]int `json:"params"`
	Thorough map[string]int `json:"thorough_params"` // overrides in the thorough tier
	Solver   string         `json:"solver"`
	IntFirst bool           `json:"int_first"`
	IntAssert bool          `json:"int_assert"`
	LoopCap  int            `json:"loopcap"`
	StepCap  int            `json:"stepcap"`
	MaxPaths int            `json:"maxpaths"`
	TimeoutMs int           `json:"solver_timeout_ms"`
	Note     string         `json:"note"`
	Tags     string         `json:"tags"` // extra build tags needed (e.g. race) -- rows with tags are run in a separate load
	NoValidate bool         `json:"no_validate"`
	ModelLevel bool         `json:"model_level"` // counterexamples depend on engine-only state (type addresses): reported without native confirmation
	SafetyOnly bool         `json:"safety_only"` // only panics, out-of-bounds accesses and unwinding failures count (C06)
}

type PropSpec struct {
	Level       string   `json:"level"`
	Rows        []Row    `json:"rows"`
	Assumptions []string `json:"assumptions"`
	Outside     []string `json:"outside_claim"`
	Stubs       []string `json:"stubs"`
	Bounds      string   `json:"bounds"`
}

type KnownFinding struct {
	Status   string `json:"status"` // known | fixed
	Property string `json:"property"`
	ID       string `json:"id"`
	What     string `json:"what"`
	Witness  string `json:"witness,omitempty"`
	Commit   string `json:"commit,omitempty"`
}

type nativeJob struct {
	Harness string         `json:"harness"`
	Vec     []uint64       `json:"vec"`
	Params  map[string]int `json:"params"`
	Tag     string         `json:"tag"`
}

type nativeResult struct {
	Tag    string   `json:"tag"`
	Status string   `json:"status"`
	Msg    string   `json:"msg"`
	Fails  []string `json:"fails"`
	Known  []string `json:"known"`
	Covers []string `json:"covers"`
	Obs    []string `json:"obs"`
}

func loadTable() (map[string]*PropSpec, error) {
	b, err := os.ReadFile(filepath.Join(verifDir, "harness", "table.json"))
	if err != nil {
		return nil, err
	}
	t := map[string]*PropSpec{}
	if err := json.Unmarshal(b, &t); err != nil {
		return nil, fmt.Errorf("table.json: %v", err)
	}
	return t, nil
}

func loadKnown() ([]KnownFinding, error) {
	b, err := os.ReadFile(filepath.Join(verifDir, "known_findings.json"))
	if err != nil {
		return nil, nil
	}
	var k []KnownFinding
	if err := json.Unmarshal(b, &k); err != nil {
		return nil, fmt.Errorf("known_findings.json: %v", err)
	}
	return k, nil
}

// runNative executes jobs natively (go test with overlay) in the package of
// harness dir `dir`.
// runNative runs the jobs natively; when the test binary dies on a job (a
// fatal error no recover() can catch) that job is marked CRASH and the rest is
// run in a fresh process.
func runNative(dir string, jobs []nativeJob, extraTags string) (map[string]nativeResult, error) {
	all := map[string]nativeResult{}
	rest := jobs
	for attempt := 0; attempt < 6 && len(rest) > 0; attempt++ {
		res, err := runNativeOnce(dir, rest, extraTags)
		for k, v := range res {
			all[k] = v
		}
		if err == nil {
			return all, nil
		}
		// find the first job without a result: it killed the process
		idx := -1
		for i, j := range rest {
			if _, ok := res[j.Tag]; !ok {
				idx = i
				break
			}
		}
		if idx < 0 {
			return all, err
		}
		if !strings.Contains(err.Error(), "native run failed") {
			return all, err
		}
		all[rest[idx].Tag] = nativeResult{Tag: rest[idx].Tag, Status: "CRASH", Msg: tail(err.Error(), 400), Fails: []string{"no-panic"}}
		rest = rest[idx+1:]
	}
	return all, nil
}

func runNativeOnce(dir string, jobs []nativeJob, extraTags string) (map[string]nativeResult, error) {
	if len(jobs) == 0 {
		return map[string]nativeResult{}, nil
	}
	tmp, err := os.MkdirTemp("", "verif-native-")
	if err != nil {
		return nil, err
	}
	defer os.RemoveAll(tmp)
	files, _ := overlayFiles()
	// native test driver for this package
	tmpl, err := os.ReadFile(filepath.Join(verifDir, "harness", "native_test.go.tmpl"))
	if err != nil {
		return nil, err
	}
	pkgName := map[string]string{"json": "json", "decoder": "decoder", "encoder": "encoder", "vm": "vm", "vm_indent": "vm_indent",
		"vm_color": "vm_color", "vm_color_indent": "vm_color_indent", "runtime": "runtime"}[dir]
	tf := filepath.Join(tmp, "zz_verif_native_test.go")
	os.WriteFile(tf, []byte(strings.Replace(string(tmpl), "package PKG", "package "+pkgName, 1)), 0o644)
	rel := overlayDirs[dir]
	files[filepath.Join(repoDir, rel, "zz_verif_native_test.go")] = tf
	ov := struct{ Replace map[string]string }{files}
	ob, _ := json.Marshal(ov)
	ovf := filepath.Join(tmp, "overlay.json")
	os.WriteFile(ovf, ob, 0o644)
	jf := filepath.Join(tmp, "jobs.jsonl")
	f, _ := os.Create(jf)
	w := bufio.NewWriter(f)
	for _, j := range jobs {
		b, _ := json.Marshal(j)
		w.Write(b)
		w.WriteByte('\n')
	}
	w.Flush()
	f.Close()
	of := filepath.Join(tmp, "out.jsonl")
	tags := "verif"
	if extraTags != "" {
		tags += "," + extraTags
	}
	cmd := exec.Command("go", "test", "-tags", tags, "-overlay", ovf, "-run", "^TestVerifNative$", "-count=1", "-vet=off", "-timeout", "20m", "./"+rel)
	cmd.Dir = repoDir
	cmd.Env = append(os.Environ(), "GOFLAGS=-mod=mod", "GOPROXY=off", "GOSUMDB=off", "GOTOOLCHAIN=local", "VERIF_JOBS="+jf, "VERIF_OUT="+of)
	out, err := cmd.CombinedOutput()
	res := map[string]nativeResult{}
	if rf, e2 := os.Open(of); e2 == nil {
		sc := bufio.NewScanner(rf)
		sc.Buffer(make([]byte, 1<<20), 1<<26)
		for sc.Scan() {
			var r nativeResult
			if json.Unmarshal(sc.Bytes(), &r) == nil {
				res[r.Tag] = r
			}
		}
		rf.Close()
	}
	if err != nil && len(res) < len(jobs) {
		// the test binary died (fatal error, timeout): the job after the last result is the culprit
		return res, fmt.Errorf("native run failed after %d/%d jobs: %v\n%s", len(res), len(jobs), err, tail(string(out), 2000))
	}
	return res, nil
}

func tail(s string, n int) string {
	if len(s) > n {
		return s[len(s)-n:]
	}
	return s
}

type Evidence struct {
	PropertyID  string                 `json:"property_id"`
	Tier        string                 `json:"tier"`
	Seed        int64                  `json:"seed"`
	Level       string                 `json:"level"`
	Coverage    map[string]interface{} `json:"coverage"`
	Assumptions []string               `json:"assumptions"`
	WallS       float64                `json:"wall_s"`
	Violations  int                    `json:"violations"`
}

func cmdCheck(args []string) int {
	fs := flag.NewFlagSet("check", flag.ExitOnError)
	tier := fs.String("tier", envOr("VERIF_TIER", "quick"), "quick|thorough")
	workers := fs.Int("j", 16, "workers")
	only := fs.String("only", "", "run only the row with this harness function")
	replay := fs.String("replay", "", "replay file")
	var id string
	if len(args) > 0 && !strings.HasPrefix(args[0], "-") {
		id = args[0]
		args = args[1:]
	}
	fs.Parse(args)
	if id == "" {
		fmt.Fprintln(os.Stderr, "usage: gosym check <ID> [--tier quick|thorough]")
		return 2
	}
	if *tier != "quick" && *tier != "thorough" {
		*tier = "quick"
	}
	seed, _ := strconv.ParseInt(envOr("VERIF_SEED", "1"), 10, 64)
	start := time.Now()
	table, err := loadTable()
	if err != nil {
		fmt.Fprintln(os.Stderr, err)
		return 2
	}
	spec, ok := table[id]
	if !ok {
		fmt.Fprintf(os.Stderr, "no harness rows for %s\n", id)
		return 2
	}
	if *replay != "" {
		return doReplay(id, *replay)
	}
	known, err := loadKnown()
	if err != nil {
		fmt.Fprintln(os.Stderr, err)
		return 2
	}
	knownByID := map[string]KnownFinding{}
	for _, k := range known {
		if k.Property == id && k.Status == "known" {
			knownByID[k.ID] = k
		}
	}
	prog, err := loadRepo()
	if err != nil {
		fmt.Printf("INCONCLUSIVE property=%s harness does not load against the current tree:\n%v\n", id, err)
		writeEvidence(id, *tier, seed, spec, nil, 0, 0, time.Since(start), []string{"load failure"}, nil, nil)
		return 2
	}
	fmt.Printf("[%s] loaded /repo working tree + harness overlay in %.1fs\n", id, time.Since(start).Seconds())

	rng := rand.New(rand.NewSource(seed))
	var results []*JobResult
	var inconclusive []string
	violations := 0
	var violationLines []string
	knownSeen := map[string]string{}
	validated := 0
	var samples []interface{}

	for _, row := range spec.Rows {
		if row.Tier != "" && row.Tier != *tier {
			continue
		}
		if *only != "" && row.Func != *only {
			continue
		}
		params := map[string]int{}
		for k, v := range row.Params {
			params[k] = v
		}
		if *tier == "thorough" {
			for k, v := range row.Thorough {
				params[k] = v
			}
		}
		job := Job{Pkg: pkgImportPath(row.Dir), Func: row.Func, Params: params, Solver: row.Solver, Workers: *workers,
			MaxPaths: row.MaxPaths, LoopCap: row.LoopCap, StepCap: row.StepCap, IntFirst: row.IntFirst, IntAssert: row.IntAssert, TimeoutMs: row.TimeoutMs}
		if job.Solver == "" {
			job.Solver = smt.DefaultZ3()
		}
		if *tier == "thorough" {
			job.CrossCheck = true
		}
		res, err := runJob(prog, job)
		if err != nil {
			msg := err.Error()
			if strings.Contains(msg, "VerifSetup") && (strings.Contains(msg, "OOB:") || strings.Contains(msg, "PANIC:")) {
				// the concrete warm-up (compiling the harness types with the real compilers) already
				// violates memory safety / panics: a violation on its own, no symbolic input involved
				violations++
				f := ssaexec.AssertFail{ID: "setup-memory-safety", Kind: "OOB", Msg: msg, Pos: "VerifSetup"}
				violationLines = append(violationLines, writeReplay(id, row, params, f, "compiling the harness types: "+msg))
				continue
			}
			inconclusive = append(inconclusive, fmt.Sprintf("%s: %v", row.Func, err))
			continue
		}
		results = append(results, res)
		fmt.Printf("[%s] %s params=%v: paths=%d %v decisions=%d (byte-domain %d) solver-checks=%d int-queries=%d wall=%.1fs\n", id, row.Func, params,
			res.Paths, res.ByStatus, res.Stats.Decisions, res.Stats.FastDecided, res.Stats.SolverChecks, res.Stats.IntQueries, res.Wall.Seconds())
		for _, s := range uniq(res.Inconclusive) {
			inconclusive = append(inconclusive, row.Func+": "+s)
		}
		if res.Stats.CrossMismatch > 0 {
			inconclusive = append(inconclusive, fmt.Sprintf("%s: %d byte-domain/solver disagreements", row.Func, res.Stats.CrossMismatch))
		}
		// ---- classify failures
		var jobs []nativeJob
		type cand struct {
			f   ssaexec.AssertFail
			tag string
		}
		var cands []cand
		perID := map[string]int{}
		for _, f := range res.Fails {
			if row.SafetyOnly && (f.Kind == "ASSERT" || f.Kind == "KNOWN" || strings.HasPrefix(f.Kind, "UNKNOWN-ASSERT")) {
				continue
			}
			if strings.HasPrefix(f.Kind, "UNKNOWN") {
				inconclusive = append(inconclusive, fmt.Sprintf("%s: solver could not decide %s at %s", row.Func, f.ID, f.Pos))
				continue
			}
			key := f.Kind + "/" + f.ID
			perID[key]++
			if perID[key] > 8 {
				continue
			}
			tag := fmt.Sprintf("c%d", len(cands))
			cands = append(cands, cand{f, tag})
			jobs = append(jobs, nativeJob{Harness: row.Func, Vec: f.Vector, Params: params, Tag: tag})
		}
		// ---- translator validation vectors: random concrete vectors run both natively and in the engine
		nval := 0
		if !row.NoValidate {
			nval = 24
			if *tier == "thorough" {
				nval = 200
			}
		}
		var valVecs [][]uint64
		for i := 0; i < nval; i++ {
			v := make([]uint64, 96)
			for j := range v {
				switch rng.Intn(4) {
				case 0:
					v[j] = uint64(rng.Intn(256))
				case 1:
					const alpha = "0123456789-+.eE \t\n\"\\{}[]:,ntfu/bar\x00\x7f\x80\xc3\xa9"
					v[j] = uint64(alpha[rng.Intn(len(alpha))])
				case 2:
					v[j] = rng.Uint64()
				default:
					v[j] = uint64(rng.Intn(4))
				}
			}
			valVecs = append(valVecs, v)
			jobs = append(jobs, nativeJob{Harness: row.Func, Vec: v, Params: params, Tag: fmt.Sprintf("v%d", i)})
		}
		nres, nerr := runNative(row.Dir, jobs, row.Tags)
		if nerr != nil {
			inconclusive = append(inconclusive, fmt.Sprintf("%s: %v", row.Func, nerr))
		}
		for _, c := range cands {
			nr, ok := nres[c.tag]
			if !ok {
				inconclusive = append(inconclusive, fmt.Sprintf("%s: no native result for counterexample of %s", row.Func, c.f.ID))
				continue
			}
			switch c.f.Kind {
			case "KNOWN":
				if contains(nr.Known, c.f.ID) {
					if _, listed := knownByID[c.f.ID]; listed {
						knownSeen[c.f.ID] = fmt.Sprintf("%s vec=%v", row.Func, trimVec(c.f.Vector))
					} else {
						// a finding class the harness can describe but the file does not list: a violation
						violations++
						violationLines = append(violationLines, writeReplay(id, row, params, c.f, "unlisted finding class "+c.f.ID))
					}
				} else {
					inconclusive = append(inconclusive, fmt.Sprintf("%s: known-finding witness %s did not reproduce natively (%s %v)", row.Func, c.f.ID, nr.Status, nr.Fails))
				}
			case "ASSERT", "PANIC":
				want := c.f.ID
				if c.f.Kind == "PANIC" {
					want = "no-panic"
				}
				if contains(nr.Fails, want) || nr.Status == "CRASH" {
					violations++
					violationLines = append(violationLines, writeReplay(id, row, params, c.f, c.f.Msg))
				} else if row.ModelLevel && c.f.Kind == "ASSERT" {
					violations++
					violationLines = append(violationLines, writeReplay(id, row, params, c.f, "model-level (depends on the engine's type addresses, not reproducible natively): "+c.f.Msg))
				} else {
					inconclusive = append(inconclusive, fmt.Sprintf("SPURIOUS-ENGINE %s: counterexample for %s (%s) did not reproduce natively: native status=%s fails=%v msg=%s vec=%v",
						row.Func, c.f.ID, c.f.Msg, nr.Status, nr.Fails, nr.Msg, trimVec(c.f.Vector)))
				}
			case "INCONC":
				// a path the engine could not finish (unwinding cap, unsupported construct): the
				// model of its path condition is run natively; a native assertion failure or crash
				// on that input is a violation found by the solver's input, anything else leaves
				// the path inconclusive (already listed)
				if len(nr.Fails) > 0 || nr.Status == "CRASH" {
					violations++
					violationLines = append(violationLines, writeReplay(id, row, params, c.f, fmt.Sprintf("native run on the model of an inconclusive path (%s) fails %v %s", c.f.Msg, nr.Fails, nr.Msg)))
				}
			case "OOB":
				// out-of-bounds access in the model; natively it may be silent. Reported as model-level memory-safety violation.
				violations++
				violationLines = append(violationLines, writeReplay(id, row, params, c.f, "memory-safety (model-level): "+c.f.Msg))
			}
		}
		// engine concrete runs for the validation vectors
		if nval > 0 && nerr == nil {
			nativeOnly = nil
			agree, disagree := validateConcrete(prog, job, valVecs, nres)
			validated += agree
			for i, nf := range nativeOnly {
				if i >= 3 {
					break
				}
				violations++
				f := ssaexec.AssertFail{ID: nf.fails[0], Kind: "ASSERT", Vector: nf.vec, Msg: "native run of a validation vector"}
				violationLines = append(violationLines, writeReplay(id, row, params, f,
					fmt.Sprintf("the real code fails %v natively on a validation vector while the engine's run of it does not (environment modelled differently, see the TRANSLATOR-MISMATCH line): demonstrated natively, not decided by the solver", nf.fails)))
			}
			for _, d := range disagree {
				inconclusive = append(inconclusive, fmt.Sprintf("TRANSLATOR-MISMATCH %s: %s", row.Func, d))
			}
		}
		// covers
		for _, s := range res.SampleObs {
			if len(samples) < 6 {
				samples = append(samples, map[string]interface{}{"harness": row.Func, "path_outputs": s})
			}
		}
		for _, f := range res.Fails {
			if f.Kind == "KNOWN" && len(samples) < 12 {
				samples = append(samples, map[string]interface{}{"harness": row.Func, "known_finding_witness": f.ID, "vector": trimVec(f.Vector)})
			}
		}
	}
	// ---- report
	for idk, w := range knownSeen {
		fmt.Printf("KNOWN-FINDING: property=%s %s: %s [witness %s]\n", id, idk, knownByID[idk].What, w)
	}
	for _, l := range violationLines {
		fmt.Println(l)
	}
	inconclusive = uniq(inconclusive)
	for _, s := range inconclusive {
		fmt.Printf("INCONCLUSIVE property=%s %s\n", id, s)
	}
	writeEvidence(id, *tier, seed, spec, results, validated, violations, time.Since(start), inconclusive, samples, knownSeen)
	switch {
	case violations > 0:
		return 1
	case len(inconclusive) > 0:
		return 2
	}
	fmt.Printf("[%s] OK tier=%s: every obligation unsat within its bounds (%.1fs)\n", id, *tier, time.Since(start).Seconds())
	return 0
}

func trimVec(v []uint64) []uint64 {
	n := len(v)
	for n > 0 && v[n-1] == 0 {
		n--
	}
	if n < len(v) {
		n++
	}
	if n > len(v) {
		n = len(v)
	}
	return v[:n]
}

func contains(xs []string, s string) bool {
	for _, x := range xs {
		if x == s {
			return true
		}
	}
	return false
}

func uniq(xs []string) []string {
	seen := map[string]bool{}
	var out []string
	for _, x := range xs {
		if !seen[x] {
			seen[x] = true
			out = append(out, x)
		}
	}
	return out
}

type ReplayFile struct {
	Property string         `json:"property"`
	Dir      string         `json:"dir"`
	Harness  string         `json:"harness"`
	Params   map[string]int `json:"params"`
	Vector   []uint64       `json:"vector"`
	Names    []string       `json:"names"`
	Expect   string         `json:"expect"`
	Kind     string         `json:"kind"`
	What     string         `json:"what"`
	Pos      string         `json:"pos"`
}

func writeReplay(id string, row Row, params map[string]int, f ssaexec.AssertFail, what string) string {
	rf := ReplayFile{Property: id, Dir: row.Dir, Harness: row.Func, Params: params, Vector: f.Vector, Names: f.Names, Expect: f.ID, Kind: f.Kind, What: what, Pos: f.Pos}
	b, _ := json.MarshalIndent(rf, "", " ")
	h := sha1.Sum(b)
	dir := envOr("VERIF_REPLAY_DIR", filepath.Join(verifDir, "replays"))
	os.MkdirAll(dir, 0o755)
	p := filepath.Join(dir, fmt.Sprintf("%s-%x.json", id, h[:6]))
	os.WriteFile(p, b, 0o644)
	fmt.Printf("  violation detail: %s %s at %s\n    input: %s\n", f.ID, what, f.Pos, describeVector(f))
	return fmt.Sprintf("VIOLATION property=%s replay=%s", id, p)
}

func describeVector(f ssaexec.AssertFail) string {
	var sb strings.Builder
	for i, n := range f.Names {
		if i >= len(f.Vector) || i > 64 {
			break
		}
		fmt.Fprintf(&sb, "%s=%d ", n, f.Vector[i])
	}
	return sb.String()
}

func doReplay(id, path string) int {
	b, err := os.ReadFile(path)
	if err != nil {
		fmt.Fprintln(os.Stderr, err)
		return 2
	}
	var rf ReplayFile
	if err := json.Unmarshal(b, &rf); err != nil {
		fmt.Fprintln(os.Stderr, err)
		return 2
	}
	res, err := runNative(rf.Dir, []nativeJob{{Harness: rf.Harness, Vec: rf.Vector, Params: rf.Params, Tag: "r"}}, "")
	if err != nil {
		fmt.Println(err)
		return 2
	}
	r := res["r"]
	fmt.Printf("native replay of %s: status=%s fails=%v known=%v msg=%s obs=%v\n", rf.Harness, r.Status, r.Fails, r.Known, r.Msg, r.Obs)
	want := rf.Expect
	if rf.Kind == "PANIC" {
		want = "no-panic"
	}
	if contains(r.Fails, want) || (rf.Kind == "KNOWN" && contains(r.Known, rf.Expect)) || (rf.Kind == "INCONC" && (len(r.Fails) > 0 || r.Status == "CRASH")) {
		fmt.Printf("VIOLATION property=%s replay=%s\n", id, path)
		return 1
	}
	fmt.Println("not reproduced on the current tree")
	return 0
}

// validateConcrete runs the harness in the engine's concrete mode on the given
// vectors and compares status/observations with the native results.
// nativeOnlyFail: a validation vector on which the REAL code fails a harness assertion natively
// while the engine's run of the same vector does not (the engine's model of the environment differs:
// e.g. all types on the slow cache path). The native failure is a demonstrated violation.
type nativeOnlyFail struct {
	vec   []uint64
	fails []string
}

var nativeOnly []nativeOnlyFail

func validateConcrete(prog *ssaexec.Program, job Job, vecs [][]uint64, nres map[string]nativeResult) (agree int, disagree []string) {
	for i, v := range vecs {
		nr, ok := nres[fmt.Sprintf("v%d", i)]
		if !ok {
			continue
		}
		cr, err := ssaexec.RunConcrete(prog, job.Pkg, job.Func, job.Params, v, job.LoopCap, job.StepCap)
		if err != nil {
			disagree = append(disagree, fmt.Sprintf("vec %d: engine error %v", i, err))
			continue
		}
		if cr.Status == "UNSUPPORTED" || cr.Status == "UNWIND" {
			// not a disagreement, but not a validation either
			continue
		}
		es := cr.Status
		if es == "OOB" {
			es = "PANIC?" // natively an OOB read may or may not fault
		}
		ns := nr.Status
		okStatus := es == ns || (es == "PANIC?" && true)
		eobs := strings.Join(cr.Obs, ";")
		nobs := strings.Join(nr.Obs, ";")
		sort.Strings(cr.Fails)
		nf := append([]string(nil), nr.Fails...)
		sort.Strings(nf)
		if !okStatus || (es != "PANIC?" && eobs != nobs) || (es != "PANIC?" && strings.Join(cr.Fails, ",") != strings.Join(nf, ",")) {
			disagree = append(disagree, fmt.Sprintf("vec %d: engine status=%s obs=%s fails=%v msg=%s | native status=%s obs=%s fails=%v msg=%s", i, cr.Status, eobs, cr.Fails, cr.Msg, nr.Status, nobs, nf, nr.Msg))
			var real []string
			for _, f := range nf {
				// assertions that only validate the harness's own reference are not about the code under test
				if f != "reference-equals-encoding-json" && !contains(cr.Fails, f) {
					real = append(real, f)
				}
			}
			if (nr.Status == "ASSERTFAIL" || nr.Status == "CRASH") && len(real) > 0 && cr.Status == "OK" {
				nativeOnly = append(nativeOnly, nativeOnlyFail{vec: v, fails: real})
			}
			continue
		}
		agree++
	}
	return
}

func writeEvidence(id, tier string, seed int64, spec *PropSpec, results []*JobResult, validated, violations int, wall time.Duration,
	inconclusive []string, samples []interface{}, knownSeen map[string]string) {
	cov := map[string]interface{}{}
	states, transitions, queries, intq := 0, 0, 0, 0
	var solverNs, intNs int64
	obligations := map[string]int{}
	covers := map[string]bool{}
	var fns []map[string]interface{}
	seenFn := map[string]bool{}
	var rows []map[string]interface{}
	instrs := int64(0)
	fast := 0
	for _, r := range results {
		states += r.Paths
		transitions += r.Stats.Decisions
		queries += r.Stats.SolverChecks
		intq += r.Stats.IntQueries
		solverNs += int64(r.SolverTime)
		intNs += r.Stats.IntTimeNs
		instrs += r.Stats.Instrs
		fast += r.Stats.FastDecided
		for k, v := range r.Obligations {
			obligations[r.Job.Func+"/"+k] += v
		}
		for k := range r.Covers {
			covers[r.Job.Func+"/"+k] = true
		}
		for _, f := range r.Functions {
			if !seenFn[f.Name] {
				seenFn[f.Name] = true
				fns = append(fns, map[string]interface{}{"name": f.Name, "ssa_instrs": f.Instrs, "src_hash": f.SrcHash, "pos": f.Pos})
			}
		}
		rows = append(rows, map[string]interface{}{"harness": r.Job.Func, "params": r.Job.Params, "paths": r.Paths, "by_status": r.ByStatus,
			"branch_decisions": r.Stats.Decisions, "decided_by_byte_domain": r.Stats.FastDecided, "solver_checks": r.Stats.SolverChecks,
			"int_translation_queries": r.Stats.IntQueries, "wall_s": r.Wall.Seconds(), "solver": r.Job.Solver,
			"crosschecked": r.Stats.CrossChecked, "crosscheck_mismatches": r.Stats.CrossMismatch})
	}
	if len(samples) == 0 {
		samples = []interface{}{map[string]interface{}{"note": "no path outputs recorded"}}
	}
	nObl := 0
	for _, v := range obligations {
		nObl += v
	}
	cov["states"] = states
	cov["transitions"] = transitions
	cov["traces_validated_against_impl"] = validated
	cov["samples"] = samples
	cov["evaluations"] = states
	cov["distinct_nontrivial"] = states
	cov["rule"] = "one evaluation = one symbolic path (a class of inputs sharing all branch outcomes) explored to completion; paths are pairwise disjoint by construction"
	cov["symbolic_paths"] = states
	cov["branch_decisions"] = transitions
	cov["decided_by_byte_domain"] = fast
	cov["solver_queries"] = queries
	cov["int_translation_queries"] = intq
	cov["solver_time_s"] = float64(solverNs+intNs) / 1e9
	cov["ssa_instructions_executed"] = instrs
	cov["assertion_checks"] = nObl
	cov["obligations_by_id"] = obligations
	cov["cover_points_reached"] = ssaexec.SortedKeys(covers)
	cov["functions_encoded"] = fns
	cov["rows"] = rows
	cov["bounds"] = spec.Bounds
	cov["stubs"] = spec.Stubs
	cov["outside_claim"] = spec.Outside
	cov["inconclusive"] = inconclusive
	cov["known_findings_reproduced"] = knownSeen
	cov["exhaustive"] = len(inconclusive) == 0
	cov["trusted_base"] = []string{"go/packages + go/ssa construction (x/tools v0.29.0)", "gosym SSA semantics and memory model (/verif/engine)", "z3 4.8.12 / cvc5 1.0", "reference models in /verif/harness/verifref", "stubs listed under stubs"}
	level := spec.Level
	if level == "" {
		level = "model_checking"
	}
	ev := Evidence{PropertyID: id, Tier: tier, Seed: seed, Level: level, Coverage: cov, Assumptions: spec.Assumptions, WallS: wall.Seconds(), Violations: violations}
	if ev.Assumptions == nil {
		ev.Assumptions = []string{}
	}
	b, _ := json.MarshalIndent(ev, "", " ")
	evd := envOr("VERIF_EVIDENCE_DIR", filepath.Join(verifDir, "evidence"))
	os.MkdirAll(evd, 0o755)
	os.WriteFile(filepath.Join(evd, id+".json"), b, 0o644)
}
