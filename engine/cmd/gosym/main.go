package main

import (
	"flag"
	"fmt"
	"os"
	"strconv"
	"strings"
	"time"

	"gosym/ssaexec"
)

func main() {
	if len(os.Args) < 2 {
		fmt.Fprintln(os.Stderr, "usage: gosym run|check ...")
		os.Exit(2)
	}
	switch os.Args[1] {
	case "run":
		cmdRun(os.Args[2:])
	case "conc":
		// gosym conc <dir> <func> k=v,... v1,v2,...
		prog, err := loadRepo()
		if err != nil {
			fmt.Fprintln(os.Stderr, err)
			os.Exit(2)
		}
		var vec []uint64
		for _, x := range strings.Split(os.Args[5], ",") {
			v, _ := strconv.ParseUint(x, 10, 64)
			vec = append(vec, v)
		}
		cr, err := ssaexec.RunConcrete(prog, pkgImportPath(os.Args[2]), os.Args[3], parseParams(os.Args[4]), vec, 0, 0)
		fmt.Printf("%+v %v\n", cr, err)
		nres, nerr := runNative(os.Args[2], []nativeJob{{Harness: os.Args[3], Vec: vec, Params: parseParams(os.Args[4]), Tag: "r"}}, "")
		fmt.Printf("native: %+v %v\n", nres["r"], nerr)
	case "check":
		os.Exit(cmdCheck(os.Args[2:]))
	default:
		fmt.Fprintln(os.Stderr, "unknown command")
		os.Exit(2)
	}
}

func parseParams(s string) map[string]int {
	m := map[string]int{}
	if s == "" {
		return m
	}
	for _, kv := range strings.Split(s, ",") {
		p := strings.SplitN(kv, "=", 2)
		v, _ := strconv.Atoi(p[1])
		m[p[0]] = v
	}
	return m
}

func cmdRun(args []string) {
	fs := flag.NewFlagSet("run", flag.ExitOnError)
	pkg := fs.String("pkg", "", "import path of the harness package")
	fn := fs.String("func", "", "harness function")
	params := fs.String("params", "", "k=v,...")
	solver := fs.String("solver", "", "solver kind (default: z3-new if present, else z3)")
	workers := fs.Int("j", 1, "workers")
	maxPaths := fs.Int("maxpaths", 0, "path cap")
	loopCap := fs.Int("loopcap", 0, "loop cap")
	nofast := fs.Bool("nofast", false, "disable byte-domain fast path")
	cross := fs.Bool("crosscheck", false, "cross-check fast path with solver")
	verbose := fs.Bool("v", false, "print every path")
	intFirst := fs.Bool("intfirst", false, "decide queries on the integer translation first")
	tmo := fs.Int("timeout", 0, "BV solver timeout ms")
	intAssert := fs.Bool("intassert", false, "decide assertion queries on the integer translation first")
	fs.Parse(args)
	start := time.Now()
	prog, err := loadRepo()
	if err != nil {
		fmt.Fprintln(os.Stderr, err)
		os.Exit(2)
	}
	fmt.Fprintf(os.Stderr, "loaded in %v\n", time.Since(start))
	job := Job{Pkg: *pkg, Func: *fn, Params: parseParams(*params), Solver: *solver, Workers: *workers,
		MaxPaths: *maxPaths, LoopCap: *loopCap, NoFast: *nofast, CrossCheck: *cross, Verbose: *verbose, IntFirst: *intFirst, IntAssert: *intAssert, TimeoutMs: *tmo}
	res, err := runJob(prog, job)
	if err != nil {
		fmt.Fprintln(os.Stderr, err)
		os.Exit(2)
	}
	printJobResult(res)
	fmt.Fprintf(os.Stderr, "total %v\n", time.Since(start))
	_ = ssaexec.SortedKeys
}
