// Package smt: hash-consed bit-vector/Bool terms with an eager simplifier,
// concrete evaluation and SMT-LIB2 printing.
package smt

import (
	"fmt"
	"math/bits"
	"sort"
	"strings"
)

type Op uint8

const (
	OpConst Op = iota
	OpVar
	// bit-vector -> bit-vector
	OpNot
	OpNeg
	OpAnd
	OpOr
	OpXor
	OpAdd
	OpSub
	OpMul
	OpUDiv
	OpURem
	OpSDiv
	OpSRem
	OpShl
	OpLShr
	OpAShr
	OpExtract // V = hi<<8|lo
	OpConcat
	OpZExt
	OpSExt
	OpIte // A cond(Bool), B, C (bv or bool)
	// -> Bool
	OpEq
	OpUlt
	OpUle
	OpSlt
	OpSle
	OpBNot
	OpBAnd
	OpBOr
	// floating point (operands are BV32/BV64 bit patterns)
	OpFLt
	OpFLe
	OpFEq
	OpFIsNaN
	OpFIsInf
	OpFAbs
	OpFNeg
	OpFToF   // float width conversion (W = target width)
	OpSToF   // signed int -> float (W = target width)
	OpUToF   // unsigned int -> float
	OpFToS   // float -> signed int (round toward zero), W target width
	OpFToU   // float -> unsigned int
	OpUF     // uninterpreted function application: Name, args in Args
)

var opNames = map[Op]string{
	OpNot: "bvnot", OpNeg: "bvneg", OpAnd: "bvand", OpOr: "bvor", OpXor: "bvxor", OpAdd: "bvadd", OpSub: "bvsub",
	OpMul: "bvmul", OpUDiv: "bvudiv", OpURem: "bvurem", OpSDiv: "bvsdiv", OpSRem: "bvsrem", OpShl: "bvshl",
	OpLShr: "bvlshr", OpAShr: "bvashr", OpConcat: "concat", OpIte: "ite", OpEq: "=", OpUlt: "bvult", OpUle: "bvule",
	OpSlt: "bvslt", OpSle: "bvsle", OpBNot: "not", OpBAnd: "and", OpBOr: "or",
}

// Term is immutable and hash-consed inside one Ctx: pointer equality is
// structural equality.
type Term struct {
	Op   Op
	W    uint8 // width in bits, 0 = Bool
	A    *Term
	B    *Term
	C    *Term
	Args []*Term // OpUF only
	V    uint64
	Name string
	ID   uint32
	// support: ids of variables the term depends on (nil + many => more than maxSupp)
	supp []uint32
	many bool
}

const maxSupp = 4

type key struct {
	op      Op
	w       uint8
	a, b, c uint32
	v       uint64
	name    string
}

type Ctx struct {
	table  map[key]*Term
	terms  []*Term
	Vars   []*Term // in creation order
	varBy  map[string]*Term
	True   *Term
	False  *Term
	NoSimp bool
	// eval memo
	memoVal   []uint64
	memoEpoch []uint32
	epoch     uint32
	UFs       map[string][]uint8 // uf name -> arg widths + result width (last)
}

func NewCtx() *Ctx {
	c := &Ctx{table: map[key]*Term{}, varBy: map[string]*Term{}, UFs: map[string][]uint8{}}
	c.terms = append(c.terms, nil) // id 0 unused
	c.False = c.mk(OpConst, 0, nil, nil, nil, 0, "")
	c.True = c.mk(OpConst, 0, nil, nil, nil, 1, "")
	return c
}

func (c *Ctx) NumTerms() int { return len(c.terms) }

func id(t *Term) uint32 {
	if t == nil {
		return 0
	}
	return t.ID
}

func (c *Ctx) mk(op Op, w uint8, a, b, cc *Term, v uint64, name string) *Term {
	k := key{op, w, id(a), id(b), id(cc), v, name}
	if t, ok := c.table[k]; ok {
		return t
	}
	t := &Term{Op: op, W: w, A: a, B: b, C: cc, V: v, Name: name, ID: uint32(len(c.terms))}
	// support
	if op == OpVar {
		t.supp = []uint32{t.ID}
	} else {
		for _, ch := range [3]*Term{a, b, cc} {
			if ch == nil {
				continue
			}
			if ch.many {
				t.many = true
				t.supp = nil
				break
			}
			t.supp = mergeSupp(t.supp, ch.supp)
			if len(t.supp) > maxSupp {
				t.many = true
				t.supp = nil
				break
			}
		}
	}
	c.terms = append(c.terms, t)
	c.table[k] = t
	return t
}

func mergeSupp(a, b []uint32) []uint32 {
	if len(b) == 0 {
		return a
	}
	if len(a) == 0 {
		return b
	}
	out := make([]uint32, 0, len(a)+len(b))
	i, j := 0, 0
	for i < len(a) && j < len(b) {
		switch {
		case a[i] == b[j]:
			out = append(out, a[i])
			i++
			j++
		case a[i] < b[j]:
			out = append(out, a[i])
			i++
		default:
			out = append(out, b[j])
			j++
		}
	}
	out = append(out, a[i:]...)
	out = append(out, b[j:]...)
	return out
}

// Supp returns the variable ids the term depends on; ok=false when there are
// more than maxSupp of them.
func (t *Term) Supp() (ids []uint32, ok bool) { return t.supp, !t.many }

func (t *Term) IsConst() bool { return t.Op == OpConst }
func (t *Term) IsBool() bool  { return t.W == 0 }
func (t *Term) IsTrue() bool  { return t.Op == OpConst && t.W == 0 && t.V == 1 }
func (t *Term) IsFalse() bool { return t.Op == OpConst && t.W == 0 && t.V == 0 }

func mask(w uint8) uint64 {
	if w >= 64 {
		return ^uint64(0)
	}
	return (uint64(1) << w) - 1
}

func sext64(v uint64, w uint8) int64 {
	if w >= 64 {
		return int64(v)
	}
	sh := 64 - uint(w)
	return int64(v<<sh) >> sh
}

func (c *Ctx) Const(v uint64, w uint8) *Term {
	if w == 0 {
		panic("Const: width 0")
	}
	return c.mk(OpConst, w, nil, nil, nil, v&mask(w), "")
}

func (c *Ctx) Bool(b bool) *Term {
	if b {
		return c.True
	}
	return c.False
}

// Var creates (or returns) the variable with that name.
func (c *Ctx) Var(name string, w uint8) *Term {
	if t, ok := c.varBy[name]; ok {
		if t.W != w {
			panic("Var: width clash for " + name)
		}
		return t
	}
	t := c.mk(OpVar, w, nil, nil, nil, 0, name)
	c.varBy[name] = t
	c.Vars = append(c.Vars, t)
	return t
}

func (c *Ctx) TermByID(id uint32) *Term { return c.terms[id] }

// ---------------------------------------------------------------- builders

func (c *Ctx) Not(a *Term) *Term {
	if a.IsConst() {
		return c.Const(^a.V, a.W)
	}
	if !c.NoSimp && a.Op == OpNot {
		return a.A
	}
	return c.mk(OpNot, a.W, a, nil, nil, 0, "")
}

func (c *Ctx) Neg(a *Term) *Term {
	if a.IsConst() {
		return c.Const(-a.V, a.W)
	}
	return c.mk(OpNeg, a.W, a, nil, nil, 0, "")
}

func (c *Ctx) bin(op Op, a, b *Term) *Term {
	if a.W != b.W {
		panic(fmt.Sprintf("smt: width mismatch %s: %d vs %d", opNames[op], a.W, b.W))
	}
	w := a.W
	if a.IsConst() && b.IsConst() {
		if v, ok := foldBin(op, a.V, b.V, w); ok {
			return c.Const(v, w)
		}
	}
	if !c.NoSimp {
		// canonical order for commutative ops: constant on the right
		switch op {
		case OpAnd, OpOr, OpXor, OpAdd, OpMul:
			if a.IsConst() && !b.IsConst() {
				a, b = b, a
			}
		}
		if b.IsConst() {
			switch op {
			case OpAdd, OpSub, OpOr, OpXor, OpShl, OpLShr, OpAShr:
				if b.V == 0 {
					return a
				}
			case OpAnd:
				if b.V == 0 {
					return b
				}
				if b.V == mask(w) {
					return a
				}
				// x & (2^k-1) is canonically zext(extract(k-1,0,x))
				if b.V&(b.V+1) == 0 {
					k := uint8(bits.Len64(b.V))
					return c.ZExt(c.Extract(a, k-1, 0), w)
				}
			case OpMul:
				if b.V == 0 {
					return b
				}
				if b.V == 1 {
					return a
				}
			case OpUDiv:
				if b.V == 1 {
					return a
				}
				if b.V != 0 {
					// (x / k1) / k2 = x / (k1*k2) when the product does not overflow
					if a.Op == OpUDiv && a.B.IsConst() && a.B.V != 0 {
						hi, lo := bits.Mul64(a.B.V, b.V)
						if hi == 0 && lo <= mask(w) {
							return c.bin(OpUDiv, a.A, c.Const(lo, w))
						}
						if hi != 0 || lo > mask(w) {
							return c.Const(0, w)
						}
					}
					// (y % m) / k = (y / k) % (m/k) when k divides m
					if a.Op == OpURem && a.B.IsConst() && a.B.V != 0 && a.B.V%b.V == 0 {
						return c.bin(OpURem, c.bin(OpUDiv, a.A, b), c.Const(a.B.V/b.V, w))
					}
				}
			case OpURem:
				if b.V == 1 {
					return c.Const(0, w)
				}
				if b.V != 0 {
					// (y % m) % k = y % k when k divides m
					if a.Op == OpURem && a.B.IsConst() && a.B.V != 0 && a.B.V%b.V == 0 {
						return c.bin(OpURem, a.A, b)
					}
				}
			}
			if op == OpOr && b.V == mask(w) {
				return b
			}
			// (x + k1) + k2 -> x + (k1+k2) ; (x + k1) - k2
			if (op == OpAdd || op == OpSub) && a.Op == OpAdd && a.B.IsConst() {
				k := a.B.V
				if op == OpAdd {
					k += b.V
				} else {
					k -= b.V
				}
				return c.bin(OpAdd, a.A, c.Const(k, w))
			}
			if op == OpSub {
				// x - k -> x + (-k)
				return c.bin(OpAdd, a, c.Const(-b.V, w))
			}
			if op == OpAnd && a.Op == OpAnd && a.B.IsConst() {
				return c.bin(OpAnd, a.A, c.Const(a.B.V&b.V, w))
			}
			// (zext x) & k where k covers all bits of x
			if op == OpAnd && a.Op == OpZExt && b.V&mask(a.A.W) == mask(a.A.W) {
				return a
			}
			if (op == OpShl || op == OpLShr) && b.V >= uint64(w) {
				return c.Const(0, w)
			}
		}
		if a == b {
			switch op {
			case OpAnd, OpOr:
				return a
			case OpXor, OpSub:
				return c.Const(0, w)
			}
		}
		if op == OpSub && a.Op == OpAdd && a.A == b {
			// (x + k) - x -> k
			return a.B
		}
	}
	return c.mk(op, w, a, b, nil, 0, "")
}

func foldBin(op Op, x, y uint64, w uint8) (uint64, bool) {
	m := mask(w)
	switch op {
	case OpAnd:
		return x & y, true
	case OpOr:
		return x | y, true
	case OpXor:
		return x ^ y, true
	case OpAdd:
		return (x + y) & m, true
	case OpSub:
		return (x - y) & m, true
	case OpMul:
		return (x * y) & m, true
	case OpUDiv:
		if y == 0 {
			return m, true // SMT-LIB: all ones
		}
		return x / y, true
	case OpURem:
		if y == 0 {
			return x, true
		}
		return x % y, true
	case OpSDiv:
		sx, sy := sext64(x, w), sext64(y, w)
		if sy == 0 {
			if sx >= 0 {
				return m, true
			}
			return 1, true
		}
		if sy == -1 {
			return uint64(-sx) & m, true
		}
		return uint64(sx/sy) & m, true
	case OpSRem:
		sx, sy := sext64(x, w), sext64(y, w)
		if sy == 0 {
			return x, true
		}
		if sy == -1 {
			return 0, true
		}
		return uint64(sx%sy) & m, true
	case OpShl:
		if y >= uint64(w) {
			return 0, true
		}
		return (x << y) & m, true
	case OpLShr:
		if y >= uint64(w) {
			return 0, true
		}
		return x >> y, true
	case OpAShr:
		sx := sext64(x, w)
		if y >= uint64(w) {
			y = uint64(w) - 1
		}
		return uint64(sx>>y) & m, true
	}
	return 0, false
}

func (c *Ctx) And(a, b *Term) *Term  { return c.bin(OpAnd, a, b) }
func (c *Ctx) Or(a, b *Term) *Term   { return c.bin(OpOr, a, b) }
func (c *Ctx) Xor(a, b *Term) *Term  { return c.bin(OpXor, a, b) }
func (c *Ctx) Add(a, b *Term) *Term  { return c.bin(OpAdd, a, b) }
func (c *Ctx) Sub(a, b *Term) *Term  { return c.bin(OpSub, a, b) }
func (c *Ctx) Mul(a, b *Term) *Term  { return c.bin(OpMul, a, b) }
func (c *Ctx) UDiv(a, b *Term) *Term { return c.bin(OpUDiv, a, b) }
func (c *Ctx) URem(a, b *Term) *Term { return c.bin(OpURem, a, b) }
func (c *Ctx) SDiv(a, b *Term) *Term { return c.bin(OpSDiv, a, b) }
func (c *Ctx) SRem(a, b *Term) *Term { return c.bin(OpSRem, a, b) }
func (c *Ctx) Shl(a, b *Term) *Term  { return c.bin(OpShl, a, b) }
func (c *Ctx) LShr(a, b *Term) *Term { return c.bin(OpLShr, a, b) }
func (c *Ctx) AShr(a, b *Term) *Term { return c.bin(OpAShr, a, b) }

// Extract bits hi..lo (inclusive).
func (c *Ctx) Extract(a *Term, hi, lo uint8) *Term {
	if hi < lo || hi >= a.W {
		panic(fmt.Sprintf("smt: bad extract %d..%d of width %d", hi, lo, a.W))
	}
	w := hi - lo + 1
	if w == a.W {
		return a
	}
	if a.IsConst() {
		return c.Const(a.V>>lo, w)
	}
	if !c.NoSimp {
		switch a.Op {
		case OpExtract:
			l0 := uint8(a.V & 0xff)
			return c.Extract(a.A, hi+l0, lo+l0)
		case OpConcat:
			lw := a.B.W
			if hi < lw {
				return c.Extract(a.B, hi, lo)
			}
			if lo >= lw {
				return c.Extract(a.A, hi-lw, lo-lw)
			}
		case OpZExt:
			iw := a.A.W
			if hi < iw {
				return c.Extract(a.A, hi, lo)
			}
			if lo >= iw {
				return c.Const(0, w)
			}
		case OpSExt:
			iw := a.A.W
			if hi < iw {
				return c.Extract(a.A, hi, lo)
			}
		case OpIte:
			if a.B.IsConst() && a.C.IsConst() {
				return c.Ite(a.A, c.Extract(a.B, hi, lo), c.Extract(a.C, hi, lo))
			}
		case OpNeg:
			// only when it exposes a narrower operand (otherwise byte-slicing a
			// stored word could no longer be folded back by Concat)
			if lo == 0 && (a.A.Op == OpZExt || a.A.Op == OpSExt) && hi < a.A.A.W {
				return c.Neg(c.Extract(a.A, hi, 0))
			}
		case OpLShr:
			// extract(hi,lo, x >> k) = extract(hi+k, lo+k, x) when in range
			if a.B.IsConst() && uint64(hi)+a.B.V < uint64(a.W) {
				k := uint8(a.B.V)
				return c.Extract(a.A, hi+k, lo+k)
			}
		}
	}
	return c.mk(OpExtract, w, a, nil, nil, uint64(hi)<<8|uint64(lo), "")
}

// Concat: a is the high part.
func (c *Ctx) Concat(a, b *Term) *Term {
	w := uint(a.W) + uint(b.W)
	if w > 64 {
		panic("smt: concat wider than 64")
	}
	if a.IsConst() && b.IsConst() {
		return c.Const(a.V<<b.W|b.V, uint8(w))
	}
	if !c.NoSimp {
		if a.Op == OpExtract && b.Op == OpExtract && a.A == b.A {
			ahi, alo := uint8(a.V>>8), uint8(a.V&0xff)
			bhi, blo := uint8(b.V>>8), uint8(b.V&0xff)
			if alo == bhi+1 {
				return c.Extract(a.A, ahi, blo)
			}
		}
		if a.IsConst() && a.V == 0 {
			return c.ZExt(b, uint8(w))
		}
		// bytes of a conditionally stored word: concat(ite(c,a1,b1), ite(c,a2,b2)) = ite(c, a1·a2, b1·b2)
		if a.Op == OpIte && b.Op == OpIte && a.A == b.A {
			return c.Ite(a.A, c.Concat(a.B, b.B), c.Concat(a.C, b.C))
		}
		if a.Op == OpIte && b.IsConst() && a.B.IsConst() && a.C.IsConst() {
			return c.Ite(a.A, c.Concat(a.B, b), c.Concat(a.C, b))
		}
		if b.Op == OpIte && a.IsConst() && b.B.IsConst() && b.C.IsConst() {
			return c.Ite(b.A, c.Concat(a, b.B), c.Concat(a, b.C))
		}
		// concat(x, concat(y,z)) with x,y adjacent extracts: re-associate
		if a.Op == OpExtract && b.Op == OpConcat && b.A.Op == OpExtract && b.A.A == a.A {
			alo := uint8(a.V & 0xff)
			bhi := uint8(b.A.V >> 8)
			if alo == bhi+1 {
				return c.Concat(c.Concat(a, b.A), b.B)
			}
		}
	}
	return c.mk(OpConcat, uint8(w), a, b, nil, 0, "")
}

func (c *Ctx) ZExt(a *Term, w uint8) *Term {
	if w == a.W {
		return a
	}
	if w < a.W {
		panic("smt: zext narrows")
	}
	if a.IsConst() {
		return c.Const(a.V, w)
	}
	if !c.NoSimp && a.Op == OpZExt {
		return c.ZExt(a.A, w)
	}
	if !c.NoSimp && a.Op == OpIte && a.B.IsConst() && a.C.IsConst() {
		return c.Ite(a.A, c.Const(a.B.V, w), c.Const(a.C.V, w))
	}
	return c.mk(OpZExt, w, a, nil, nil, 0, "")
}

func (c *Ctx) SExt(a *Term, w uint8) *Term {
	if w == a.W {
		return a
	}
	if w < a.W {
		panic("smt: sext narrows")
	}
	if a.IsConst() {
		return c.Const(uint64(sext64(a.V, a.W)), w)
	}
	if !c.NoSimp && a.Op == OpZExt {
		return c.ZExt(a.A, w)
	}
	return c.mk(OpSExt, w, a, nil, nil, 0, "")
}

// Resize truncates or extends (signed or not) to width w.
func (c *Ctx) Resize(a *Term, w uint8, signed bool) *Term {
	switch {
	case w == a.W:
		return a
	case w < a.W:
		return c.Extract(a, w-1, 0)
	case signed:
		return c.SExt(a, w)
	default:
		return c.ZExt(a, w)
	}
}

func (c *Ctx) Ite(cond, a, b *Term) *Term {
	if a.W != b.W {
		panic("smt: ite width mismatch")
	}
	if cond.IsTrue() {
		return a
	}
	if cond.IsFalse() {
		return b
	}
	if a == b {
		return a
	}
	if !c.NoSimp {
		if a.W == 0 {
			if a.IsTrue() && b.IsFalse() {
				return cond
			}
			if a.IsFalse() && b.IsTrue() {
				return c.BNot(cond)
			}
			if a.IsTrue() {
				return c.BOr(cond, b)
			}
			if a.IsFalse() {
				return c.BAnd(c.BNot(cond), b)
			}
			if b.IsTrue() {
				return c.BOr(c.BNot(cond), a)
			}
			if b.IsFalse() {
				return c.BAnd(cond, a)
			}
		}
		if cond.Op == OpBNot {
			return c.Ite(cond.A, b, a)
		}
		// ite(c, x, ite(c, y, z)) -> ite(c, x, z)
		if b.Op == OpIte && b.A == cond {
			return c.Ite(cond, a, b.C)
		}
		if a.Op == OpIte && a.A == cond {
			return c.Ite(cond, a.B, b)
		}
	}
	return c.mk(OpIte, a.W, cond, a, b, 0, "")
}

func (c *Ctx) Eq(a, b *Term) *Term {
	if a.W != b.W {
		panic(fmt.Sprintf("smt: eq width mismatch %d vs %d", a.W, b.W))
	}
	if a == b {
		return c.True
	}
	if a.IsConst() && b.IsConst() {
		return c.Bool(a.V == b.V)
	}
	if a.W == 0 {
		// Bool equality
		if a.IsConst() {
			a, b = b, a
		}
		if b.IsTrue() {
			return a
		}
		if b.IsFalse() {
			return c.BNot(a)
		}
		if id(a) > id(b) {
			a, b = b, a
		}
		return c.mk(OpEq, 0, a, b, nil, 0, "")
	}
	if a.IsConst() {
		a, b = b, a
	}
	if !c.NoSimp && b.IsConst() {
		switch a.Op {
		case OpIte:
			// eq(ite(c,x,y),k) with x or y constant
			if a.B.IsConst() || a.C.IsConst() {
				return c.Ite(a.A, c.Eq(a.B, b), c.Eq(a.C, b))
			}
		case OpZExt:
			if b.V>>a.A.W != 0 {
				return c.False
			}
			return c.Eq(a.A, c.Const(b.V, a.A.W))
		case OpAdd:
			if a.B.IsConst() {
				return c.Eq(a.A, c.Const(b.V-a.B.V, a.W))
			}
		case OpXor:
			if a.B.IsConst() {
				return c.Eq(a.A, c.Const(b.V^a.B.V, a.W))
			}
		case OpConcat:
			lw := a.B.W
			return c.BAnd(c.Eq(a.A, c.Const(b.V>>lw, a.A.W)), c.Eq(a.B, c.Const(b.V, lw)))
		}
	}
	if !b.IsConst() && id(a) > id(b) {
		a, b = b, a
	}
	return c.mk(OpEq, 0, a, b, nil, 0, "")
}

func (c *Ctx) Ne(a, b *Term) *Term { return c.BNot(c.Eq(a, b)) }

func (c *Ctx) cmp(op Op, a, b *Term) *Term {
	if a.W != b.W {
		panic(fmt.Sprintf("smt: cmp width mismatch %d vs %d", a.W, b.W))
	}
	if a.IsConst() && b.IsConst() {
		switch op {
		case OpUlt:
			return c.Bool(a.V < b.V)
		case OpUle:
			return c.Bool(a.V <= b.V)
		case OpSlt:
			return c.Bool(sext64(a.V, a.W) < sext64(b.V, b.W))
		case OpSle:
			return c.Bool(sext64(a.V, a.W) <= sext64(b.V, b.W))
		}
	}
	if a == b {
		return c.Bool(op == OpUle || op == OpSle)
	}
	if !c.NoSimp {
		if op == OpUlt && b.IsConst() && b.V == 0 {
			return c.False
		}
		if op == OpUle && a.IsConst() && a.V == 0 {
			return c.True
		}
		if op == OpUle && b.IsConst() && b.V == mask(b.W) {
			return c.True
		}
		// comparisons of zero-extended values against constants: narrow
		if (op == OpUlt || op == OpUle) && a.Op == OpZExt && b.IsConst() {
			iw := a.A.W
			if b.V>>iw != 0 {
				return c.True
			}
			return c.cmp(op, a.A, c.Const(b.V, iw))
		}
		if (op == OpUlt || op == OpUle) && b.Op == OpZExt && a.IsConst() {
			iw := b.A.W
			if a.V>>iw != 0 {
				return c.False
			}
			return c.cmp(op, c.Const(a.V, iw), b.A)
		}
		if (op == OpSlt || op == OpSle) && a.Op == OpZExt && b.IsConst() && a.W > a.A.W {
			// zext value is non-negative
			if sext64(b.V, b.W) < 0 {
				return c.False
			}
			uop := OpUlt
			if op == OpSle {
				uop = OpUle
			}
			return c.cmp(uop, a, b)
		}
		if (op == OpSlt || op == OpSle) && b.Op == OpZExt && a.IsConst() && b.W > b.A.W {
			if sext64(a.V, a.W) < 0 {
				return c.True
			}
			uop := OpUlt
			if op == OpSle {
				uop = OpUle
			}
			return c.cmp(uop, a, b)
		}
	}
	return c.mk(op, 0, a, b, nil, 0, "")
}

func (c *Ctx) Ult(a, b *Term) *Term { return c.cmp(OpUlt, a, b) }
func (c *Ctx) Ule(a, b *Term) *Term { return c.cmp(OpUle, a, b) }
func (c *Ctx) Slt(a, b *Term) *Term { return c.cmp(OpSlt, a, b) }
func (c *Ctx) Sle(a, b *Term) *Term { return c.cmp(OpSle, a, b) }

func (c *Ctx) BNot(a *Term) *Term {
	if a.W != 0 {
		panic("smt: BNot of non-bool")
	}
	if a.IsConst() {
		return c.Bool(a.V == 0)
	}
	if a.Op == OpBNot {
		return a.A
	}
	return c.mk(OpBNot, 0, a, nil, nil, 0, "")
}

func (c *Ctx) BAnd(a, b *Term) *Term {
	if a.W != 0 || b.W != 0 {
		panic("smt: BAnd of non-bool")
	}
	if a.IsFalse() || b.IsFalse() {
		return c.False
	}
	if a.IsTrue() {
		return b
	}
	if b.IsTrue() {
		return a
	}
	if a == b {
		return a
	}
	if (a.Op == OpBNot && a.A == b) || (b.Op == OpBNot && b.A == a) {
		return c.False
	}
	if id(a) > id(b) {
		a, b = b, a
	}
	return c.mk(OpBAnd, 0, a, b, nil, 0, "")
}

func (c *Ctx) BOr(a, b *Term) *Term {
	if a.W != 0 || b.W != 0 {
		panic("smt: BOr of non-bool")
	}
	if a.IsTrue() || b.IsTrue() {
		return c.True
	}
	if a.IsFalse() {
		return b
	}
	if b.IsFalse() {
		return a
	}
	if a == b {
		return a
	}
	if (a.Op == OpBNot && a.A == b) || (b.Op == OpBNot && b.A == a) {
		return c.True
	}
	if id(a) > id(b) {
		a, b = b, a
	}
	return c.mk(OpBOr, 0, a, b, nil, 0, "")
}

// B2BV converts Bool to a bit-vector 0/1 of width w.
func (c *Ctx) B2BV(a *Term, w uint8) *Term {
	return c.Ite(a, c.Const(1, w), c.Const(0, w))
}

// BV2B: nonzero -> true.
func (c *Ctx) BV2B(a *Term) *Term { return c.BNot(c.Eq(a, c.Const(0, a.W))) }

// ----- floating point (no folding except on demand; rarely used)

func (c *Ctx) FP(op Op, w uint8, a, b *Term) *Term {
	return c.mk(op, w, a, b, nil, 0, "")
}

// UF: uninterpreted function application.
func (c *Ctx) UF(name string, w uint8, args ...*Term) *Term {
	sig := make([]uint8, 0, len(args)+1)
	for _, a := range args {
		sig = append(sig, a.W)
	}
	sig = append(sig, w)
	if old, ok := c.UFs[name]; ok {
		if fmt.Sprint(old) != fmt.Sprint(sig) {
			panic("smt: UF signature clash " + name)
		}
	} else {
		c.UFs[name] = sig
	}
	// hash-cons manually over arg ids
	var sb strings.Builder
	sb.WriteString(name)
	for _, a := range args {
		fmt.Fprintf(&sb, ",%d", a.ID)
	}
	k := key{op: OpUF, w: w, name: sb.String()}
	if t, ok := c.table[k]; ok {
		return t
	}
	t := &Term{Op: OpUF, W: w, Name: name, Args: append([]*Term(nil), args...), ID: uint32(len(c.terms))}
	for _, ch := range args {
		if ch.many {
			t.many = true
			t.supp = nil
			break
		}
		t.supp = mergeSupp(t.supp, ch.supp)
		if len(t.supp) > maxSupp {
			t.many = true
			t.supp = nil
			break
		}
	}
	// a UF value is not evaluable: mark as "many" so fast paths skip it
	t.many = true
	t.supp = nil
	c.terms = append(c.terms, t)
	c.table[k] = t
	return t
}

// ---------------------------------------------------------------- evaluation

// Eval evaluates t under env (variable id -> value). Terms containing FP/UF
// operators cannot be evaluated: ok=false.
func (c *Ctx) Eval(t *Term, env func(v *Term) uint64) (val uint64, ok bool) {
	c.epoch++
	if len(c.memoVal) < len(c.terms) {
		n := len(c.terms) + len(c.terms)/2 + 16
		c.memoVal = make([]uint64, n)
		c.memoEpoch = make([]uint32, n)
	}
	ok = true
	val = c.eval(t, env, &ok)
	return
}

func (c *Ctx) eval(t *Term, env func(v *Term) uint64, ok *bool) uint64 {
	switch t.Op {
	case OpConst:
		return t.V
	case OpVar:
		return env(t) & mask1(t.W)
	}
	if int(t.ID) < len(c.memoEpoch) && c.memoEpoch[t.ID] == c.epoch {
		return c.memoVal[t.ID]
	}
	var r uint64
	switch t.Op {
	case OpNot:
		r = ^c.eval(t.A, env, ok) & mask(t.W)
	case OpNeg:
		r = -c.eval(t.A, env, ok) & mask(t.W)
	case OpAnd, OpOr, OpXor, OpAdd, OpSub, OpMul, OpUDiv, OpURem, OpSDiv, OpSRem, OpShl, OpLShr, OpAShr:
		r, _ = foldBin(t.Op, c.eval(t.A, env, ok), c.eval(t.B, env, ok), t.W)
	case OpExtract:
		hi, lo := uint8(t.V>>8), uint8(t.V&0xff)
		r = (c.eval(t.A, env, ok) >> lo) & mask(hi-lo+1)
	case OpConcat:
		r = c.eval(t.A, env, ok)<<t.B.W | c.eval(t.B, env, ok)
	case OpZExt:
		r = c.eval(t.A, env, ok)
	case OpSExt:
		r = uint64(sext64(c.eval(t.A, env, ok), t.A.W)) & mask(t.W)
	case OpIte:
		if c.eval(t.A, env, ok) != 0 {
			r = c.eval(t.B, env, ok)
		} else {
			r = c.eval(t.C, env, ok)
		}
	case OpEq:
		r = b2u(c.eval(t.A, env, ok) == c.eval(t.B, env, ok))
	case OpUlt:
		r = b2u(c.eval(t.A, env, ok) < c.eval(t.B, env, ok))
	case OpUle:
		r = b2u(c.eval(t.A, env, ok) <= c.eval(t.B, env, ok))
	case OpSlt:
		r = b2u(sext64(c.eval(t.A, env, ok), t.A.W) < sext64(c.eval(t.B, env, ok), t.B.W))
	case OpSle:
		r = b2u(sext64(c.eval(t.A, env, ok), t.A.W) <= sext64(c.eval(t.B, env, ok), t.B.W))
	case OpBNot:
		r = 1 - c.eval(t.A, env, ok)
	case OpBAnd:
		r = c.eval(t.A, env, ok) & c.eval(t.B, env, ok)
	case OpBOr:
		r = c.eval(t.A, env, ok) | c.eval(t.B, env, ok)
	default:
		*ok = false
		r = 0
	}
	if int(t.ID) < len(c.memoEpoch) {
		c.memoEpoch[t.ID] = c.epoch
		c.memoVal[t.ID] = r
	}
	return r
}

func mask1(w uint8) uint64 {
	if w == 0 {
		return 1
	}
	return mask(w)
}

func b2u(b bool) uint64 {
	if b {
		return 1
	}
	return 0
}

// ---------------------------------------------------------------- printing

func sortStr(w uint8) string {
	if w == 0 {
		return "Bool"
	}
	return fmt.Sprintf("(_ BitVec %d)", w)
}

func constStr(v uint64, w uint8) string {
	if w == 0 {
		if v != 0 {
			return "true"
		}
		return "false"
	}
	if w%4 == 0 {
		return fmt.Sprintf("#x%0*x", int(w/4), v)
	}
	return fmt.Sprintf("#b%0*b", int(w), v)
}

func fpSort(w uint8) string {
	if w == 32 {
		return "(_ FloatingPoint 8 24)"
	}
	return "(_ FloatingPoint 11 53)"
}

func toFP(w uint8, s string) string {
	if w == 32 {
		return "((_ to_fp 8 24) " + s + ")"
	}
	return "((_ to_fp 11 53) " + s + ")"
}

// ref returns how a term is referenced from other terms in solver text.
func ref(t *Term) string {
	switch t.Op {
	case OpConst:
		return constStr(t.V, t.W)
	case OpVar:
		return "|" + t.Name + "|"
	}
	return fmt.Sprintf("t%d", t.ID)
}

// body prints the defining expression of a composite term using refs.
func body(t *Term) string {
	switch t.Op {
	case OpExtract:
		return fmt.Sprintf("((_ extract %d %d) %s)", t.V>>8, t.V&0xff, ref(t.A))
	case OpZExt:
		return fmt.Sprintf("((_ zero_extend %d) %s)", t.W-t.A.W, ref(t.A))
	case OpSExt:
		return fmt.Sprintf("((_ sign_extend %d) %s)", t.W-t.A.W, ref(t.A))
	case OpNot, OpNeg, OpBNot:
		return fmt.Sprintf("(%s %s)", opNames[t.Op], ref(t.A))
	case OpIte:
		return fmt.Sprintf("(ite %s %s %s)", ref(t.A), ref(t.B), ref(t.C))
	case OpFLt, OpFLe, OpFEq:
		n := map[Op]string{OpFLt: "fp.lt", OpFLe: "fp.leq", OpFEq: "fp.eq"}[t.Op]
		return fmt.Sprintf("(%s %s %s)", n, toFP(t.A.W, ref(t.A)), toFP(t.B.W, ref(t.B)))
	case OpFIsNaN:
		return fmt.Sprintf("(fp.isNaN %s)", toFP(t.A.W, ref(t.A)))
	case OpFIsInf:
		return fmt.Sprintf("(fp.isInfinite %s)", toFP(t.A.W, ref(t.A)))
	case OpFAbs:
		// on bit patterns: clear the sign bit
		return fmt.Sprintf("(bvand %s %s)", ref(t.A), constStr(mask(t.W)>>1, t.W))
	case OpFNeg:
		return fmt.Sprintf("(bvxor %s %s)", ref(t.A), constStr(uint64(1)<<(t.W-1), t.W))
	case OpUF:
		if len(t.Args) == 0 {
			return "|" + t.Name + "|"
		}
		var sb strings.Builder
		sb.WriteString("(|" + t.Name + "|")
		for _, a := range t.Args {
			sb.WriteString(" " + ref(a))
		}
		sb.WriteString(")")
		return sb.String()
	case OpFToF, OpSToF, OpUToF, OpFToS, OpFToU:
		// conversions are kept as uninterpreted: never printed precisely
		panic("smt: FP conversion printing not supported")
	}
	return fmt.Sprintf("(%s %s %s)", opNames[t.Op], ref(t.A), ref(t.B))
}

// Children calls f on each direct subterm.
func (t *Term) Children(f func(*Term)) {
	if t.A != nil {
		f(t.A)
	}
	if t.B != nil {
		f(t.B)
	}
	if t.C != nil {
		f(t.C)
	}
	for _, a := range t.Args {
		f(a)
	}
}

// Defs appends, in dependency order, the define-fun / declare lines needed so
// that ref(t) is meaningful, skipping terms already in done.
func (c *Ctx) Defs(t *Term, done map[uint32]bool, out *strings.Builder) {
	if t.Op == OpConst || done[t.ID] {
		return
	}
	// iterative post-order
	type fr struct {
		t    *Term
		kids []*Term
		i    int
	}
	stack := []fr{{t: t}}
	for len(stack) > 0 {
		f := &stack[len(stack)-1]
		if f.kids == nil && f.i == 0 {
			f.t.Children(func(k *Term) {
				if k.Op != OpConst && !done[k.ID] {
					f.kids = append(f.kids, k)
				}
			})
			f.i = 0
			if f.kids == nil {
				f.kids = []*Term{}
			}
		}
		if f.i < len(f.kids) {
			k := f.kids[f.i]
			f.i++
			if !done[k.ID] {
				stack = append(stack, fr{t: k})
			}
			continue
		}
		tt := f.t
		stack = stack[:len(stack)-1]
		if done[tt.ID] {
			continue
		}
		done[tt.ID] = true
		switch tt.Op {
		case OpVar:
			fmt.Fprintf(out, "(declare-fun |%s| () %s)\n", tt.Name, sortStr(tt.W))
		case OpUF:
			k := "uf:" + tt.Name
			if !doneName(done, k) {
				sig := c.UFs[tt.Name]
				out.WriteString("(declare-fun |" + tt.Name + "| (")
				for i := 0; i < len(sig)-1; i++ {
					out.WriteString(sortStr(sig[i]) + " ")
				}
				out.WriteString(") " + sortStr(sig[len(sig)-1]) + ")\n")
			}
			fmt.Fprintf(out, "(define-fun t%d () %s %s)\n", tt.ID, sortStr(tt.W), body(tt))
		default:
			fmt.Fprintf(out, "(define-fun t%d () %s %s)\n", tt.ID, sortStr(tt.W), body(tt))
		}
	}
}

// UF declarations are tracked in the same done-set using hashed pseudo ids in
// the top range.
func doneName(done map[uint32]bool, name string) bool {
	h := uint32(2166136261)
	for i := 0; i < len(name); i++ {
		h = (h ^ uint32(name[i])) * 16777619
	}
	h |= 0x80000000
	if done[h] {
		return true
	}
	done[h] = true
	return false
}

// Ref is the exported form of ref.
func Ref(t *Term) string { return ref(t) }

// Script renders a standalone query: assertions, check-sat, get-value on all
// variables occurring in it.
func (c *Ctx) Script(asserts []*Term, logic string) string {
	var sb strings.Builder
	if logic != "" {
		sb.WriteString("(set-logic " + logic + ")\n")
	}
	done := map[uint32]bool{}
	for _, a := range asserts {
		c.Defs(a, done, &sb)
	}
	for _, a := range asserts {
		sb.WriteString("(assert " + ref(a) + ")\n")
	}
	sb.WriteString("(check-sat)\n")
	var vars []string
	for id := range done {
		if id&0x80000000 == 0 && c.terms[id].Op == OpVar {
			vars = append(vars, "|"+c.terms[id].Name+"|")
		}
	}
	sort.Strings(vars)
	if len(vars) > 0 {
		sb.WriteString("(get-value (" + strings.Join(vars, " ") + "))\n")
	}
	return sb.String()
}

// String renders a term fully inlined (debugging; exponential on DAGs).
func (t *Term) String() string {
	return t.str(0)
}

func (t *Term) str(d int) string {
	if d > 12 {
		return "…"
	}
	switch t.Op {
	case OpConst:
		if t.W == 0 {
			return constStr(t.V, 0)
		}
		return fmt.Sprintf("%d:%d", t.V, t.W)
	case OpVar:
		return t.Name
	case OpExtract:
		return fmt.Sprintf("%s[%d:%d]", t.A.str(d+1), t.V>>8, t.V&0xff)
	case OpUF:
		s := t.Name + "("
		for i, a := range t.Args {
			if i > 0 {
				s += ","
			}
			s += a.str(d + 1)
		}
		return s + ")"
	}
	n := opNames[t.Op]
	if n == "" {
		n = fmt.Sprintf("op%d", t.Op)
	}
	s := "(" + n
	t.Children(func(k *Term) { s += " " + k.str(d+1) })
	if t.Op == OpZExt || t.Op == OpSExt {
		s += fmt.Sprintf(" ->%d", t.W)
	}
	return s + ")"
}

var _ = bits.Len

// Rebuild reconstructs a term of the same operator over new children (through
// the simplifying builders).
func (c *Ctx) Rebuild(t *Term, a, b, cc *Term) *Term {
	switch t.Op {
	case OpNot:
		return c.Not(a)
	case OpNeg:
		return c.Neg(a)
	case OpAnd, OpOr, OpXor, OpAdd, OpSub, OpMul, OpUDiv, OpURem, OpSDiv, OpSRem, OpShl, OpLShr, OpAShr:
		return c.bin(t.Op, a, b)
	case OpExtract:
		return c.Extract(a, uint8(t.V>>8), uint8(t.V&0xff))
	case OpConcat:
		return c.Concat(a, b)
	case OpZExt:
		return c.ZExt(a, t.W)
	case OpSExt:
		return c.SExt(a, t.W)
	case OpIte:
		return c.Ite(a, b, cc)
	case OpEq:
		return c.Eq(a, b)
	case OpUlt, OpUle, OpSlt, OpSle:
		return c.cmp(t.Op, a, b)
	case OpBNot:
		return c.BNot(a)
	case OpBAnd:
		return c.BAnd(a, b)
	case OpBOr:
		return c.BOr(a, b)
	}
	return t
}
