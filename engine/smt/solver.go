package smt

import (
	"bufio"
	"context"
	"fmt"
	"io"
	"os"
	"os/exec"
	"strconv"
	"strings"
	"time"
)

var SlowMs = func() int { n, _ := strconv.Atoi(os.Getenv("GOSYM_SLOWMS")); return n }()

var dumpN int
var logN int

type Result int

const (
	Unsat Result = iota
	Sat
	Unknown
)

func (r Result) String() string { return [...]string{"unsat", "sat", "unknown"}[r] }

// Solver is one persistent incremental solver process (z3 -in or
// cvc5 --incremental) with an assertion stack mirrored on our side so the
// process can be restarted at any time.
type Solver struct {
	ctx     *Ctx
	Kind    string // "z3", "z3-new", "cvc5", "cvc5int"
	cmd     *exec.Cmd
	in      io.WriteCloser
	out     *bufio.Reader
	done    map[uint32]bool
	levels  [][]*Term // mirrored stack; levels[0] is the base level
	Queries int
	Time    time.Duration
	Errors  int
	Log     io.Writer
	nsent   int
	TimeoutMs int
}

// DefaultZ3: the incremental bit-vector back end. z3 4.8.12 expands define-fun
// macros pathologically on some sessions (minutes where 5.1.0 needs a second),
// so the newer binary is preferred when present.
func DefaultZ3() string {
	if _, err := exec.LookPath("z3-new"); err == nil {
		return "z3-new"
	}
	return "z3"
}

func argvFor(kind string, timeoutMs int) []string {
	switch kind {
	case "z3":
		return []string{"z3", "-in", "-smt2"}
	case "z3-new":
		return []string{"z3-new", "-in", "-smt2"}
	case "cvc5":
		return []string{"cvc5", "--incremental", "--lang=smt2", "--produce-models", fmt.Sprintf("--tlimit-per=%d", timeoutMs)}
	case "cvc5int":
		return []string{"cvc5", "--incremental", "--lang=smt2", "--produce-models", "--solve-bv-as-int=sum", fmt.Sprintf("--tlimit-per=%d", timeoutMs)}
	}
	panic("unknown solver kind " + kind)
}

func NewSolver(ctx *Ctx, kind string, timeoutMs int) (*Solver, error) {
	s := &Solver{ctx: ctx, Kind: kind, TimeoutMs: timeoutMs}
	s.levels = [][]*Term{nil}
	if err := s.start(); err != nil {
		return nil, err
	}
	return s, nil
}

func (s *Solver) start() error {
	argv := argvFor(s.Kind, s.TimeoutMs)
	cmd := exec.Command(argv[0], argv[1:]...)
	in, err := cmd.StdinPipe()
	if err != nil {
		return err
	}
	out, err := cmd.StdoutPipe()
	if err != nil {
		return err
	}
	cmd.Stderr = os.Stderr
	if err := cmd.Start(); err != nil {
		return err
	}
	s.cmd, s.in, s.out = cmd, in, bufio.NewReaderSize(out, 1<<16)
	if dir := os.Getenv("GOSYM_SOLVERLOG"); dir != "" && s.Log == nil {
		logN++
		if f, err := os.Create(fmt.Sprintf("%s/solver%d.smt2", dir, logN)); err == nil {
			s.Log = f
		}
	}
	s.done = map[uint32]bool{}
	s.nsent = 0
	s.send("(set-option :print-success false)\n")
	s.send("(set-option :global-declarations true)\n")
	s.send("(set-option :produce-models true)\n")
	if strings.HasPrefix(s.Kind, "z3") {
		s.send(fmt.Sprintf("(set-option :timeout %d)\n", s.TimeoutMs))
	} else {
		s.send("(set-logic ALL)\n")
	}
	return nil
}

func (s *Solver) send(txt string) {
	if s.Log != nil {
		io.WriteString(s.Log, txt)
	}
	s.nsent += len(txt)
	io.WriteString(s.in, txt)
}

func (s *Solver) Close() {
	if s.cmd != nil {
		s.in.Close()
		s.cmd.Process.Kill()
		s.cmd.Wait()
		s.cmd = nil
	}
}

// restart the process and replay the mirrored stack.
func (s *Solver) restart() {
	s.Close()
	if err := s.start(); err != nil {
		panic(err)
	}
	for i, lv := range s.levels {
		if i > 0 {
			s.send("(push 1)\n")
		}
		for _, t := range lv {
			s.assertRaw(t)
		}
	}
}

// Reset drops every assertion and definition (fresh process state).
func (s *Solver) Reset() {
	s.levels = [][]*Term{nil}
	if s.nsent > 16<<20 {
		s.Close()
		if err := s.start(); err != nil {
			panic(err)
		}
		return
	}
	s.done = map[uint32]bool{}
	s.send("(reset)\n")
	s.send("(set-option :print-success false)\n")
	s.send("(set-option :global-declarations true)\n")
	s.send("(set-option :produce-models true)\n")
	if strings.HasPrefix(s.Kind, "z3") {
		s.send(fmt.Sprintf("(set-option :timeout %d)\n", s.TimeoutMs))
	} else {
		s.send("(set-logic ALL)\n")
	}
}

// AllAsserts returns every term currently on the mirrored stack.
func (s *Solver) AllAsserts() []*Term {
	var all []*Term
	for _, lv := range s.levels {
		all = append(all, lv...)
	}
	return all
}

// SetTimeout changes the per-query timeout of a z3 process.
func (s *Solver) SetTimeout(ms int) {
	s.TimeoutMs = ms
	if strings.HasPrefix(s.Kind, "z3") {
		s.send(fmt.Sprintf("(set-option :timeout %d)\n", ms))
	}
}

func (s *Solver) Level() int { return len(s.levels) - 1 }

func (s *Solver) Push() {
	s.levels = append(s.levels, nil)
	s.send("(push 1)\n")
}

func (s *Solver) PopTo(level int) {
	n := s.Level() - level
	if n <= 0 {
		return
	}
	s.levels = s.levels[:level+1]
	s.send(fmt.Sprintf("(pop %d)\n", n))
	// keep the process from growing without bound
	if s.nsent > 64<<20 {
		s.restart()
	}
}

func (s *Solver) assertRaw(t *Term) {
	var sb strings.Builder
	s.ctx.Defs(t, s.done, &sb)
	sb.WriteString("(assert " + ref(t) + ")\n")
	s.send(sb.String())
}

func (s *Solver) Assert(t *Term) {
	if t.IsTrue() {
		return
	}
	top := len(s.levels) - 1
	s.levels[top] = append(s.levels[top], t)
	s.assertRaw(t)
}

func (s *Solver) readLine() (string, error) {
	line, err := s.out.ReadString('\n')
	return strings.TrimSpace(line), err
}

// Check runs check-sat under the current stack plus the extra assumption
// (asserted inside a temporary push).
func (s *Solver) Check(extra ...*Term) Result {
	start := time.Now()
	defer func() {
		d := time.Since(start)
		s.Time += d
		s.Queries++
		if SlowMs > 0 && d > time.Duration(SlowMs)*time.Millisecond {
			fmt.Fprintf(os.Stderr, "slow query %v (%s, level %d)\n", d, s.Kind, s.Level())
			if dir := os.Getenv("GOSYM_DUMPSLOW"); dir != "" {
				var all []*Term
				for _, lv := range s.levels {
					all = append(all, lv...)
				}
				all = append(all, extra...)
				dumpN++
				os.WriteFile(fmt.Sprintf("%s/slow%d.smt2", dir, dumpN), []byte(s.ctx.Script(all, "")), 0o644)
			}
		}
	}()
	if len(extra) > 0 {
		s.send("(push 1)\n")
		for _, e := range extra {
			s.assertRaw(e)
		}
	}
	s.send("(check-sat)\n")
	res := s.readResult()
	if len(extra) > 0 {
		s.send("(pop 1)\n")
	}
	return res
}

func (s *Solver) readResult() Result {
	sawErr := false
	for {
		line, err := s.readLine()
		if err != nil {
			s.Errors++
			s.restart()
			return Unknown
		}
		switch {
		case line == "sat" && !sawErr:
			return Sat
		case line == "unsat" && !sawErr:
			return Unsat
		case line == "sat" || line == "unsat" || line == "unknown" || line == "timeout":
			return Unknown
		case strings.HasPrefix(line, "(error"):
			s.Errors++
			fmt.Fprintf(os.Stderr, "solver %s: %s\n", s.Kind, line)
			// drain: the check-sat answer still follows, but is not trusted
			sawErr = true
			continue
		case line == "":
			continue
		default:
			fmt.Fprintf(os.Stderr, "solver %s: unexpected: %s\n", s.Kind, line)
			s.Errors++
			return Unknown
		}
	}
}

// CheckModel is Check followed by model extraction for the given variables
// (values keyed by variable name). The model is read while the temporary
// push is still active.
func (s *Solver) CheckModel(vars []*Term, extra ...*Term) (Result, map[string]uint64) {
	start := time.Now()
	defer func() {
		d := time.Since(start)
		s.Time += d
		s.Queries++
		if SlowMs > 0 && d > time.Duration(SlowMs)*time.Millisecond {
			fmt.Fprintf(os.Stderr, "slow model query %v (%s, level %d)\n", d, s.Kind, s.Level())
			if dir := os.Getenv("GOSYM_DUMPSLOW"); dir != "" {
				var all []*Term
				for _, lv := range s.levels {
					all = append(all, lv...)
				}
				all = append(all, extra...)
				dumpN++
				os.WriteFile(fmt.Sprintf("%s/slowm%d.smt2", dir, dumpN), []byte(s.ctx.Script(all, "")), 0o644)
			}
		}
	}()
	s.send("(push 1)\n")
	for _, e := range extra {
		s.assertRaw(e)
	}
	// make sure every variable is declared
	var sb strings.Builder
	for _, v := range vars {
		s.ctx.Defs(v, s.done, &sb)
	}
	s.send(sb.String())
	s.send("(check-sat)\n")
	res := s.readResult()
	var model map[string]uint64
	if res == Sat && len(vars) > 0 {
		var q strings.Builder
		q.WriteString("(get-value (")
		for _, v := range vars {
			q.WriteString(ref(v) + " ")
		}
		q.WriteString("))\n")
		s.send(q.String())
		txt := s.readSexp()
		model = ParseModel(txt)
	}
	s.send("(pop 1)\n")
	return res, model
}

// readSexp reads one balanced s-expression from the solver.
func (s *Solver) readSexp() string {
	var sb strings.Builder
	depth := 0
	started := false
	inBar := false
	for {
		b, err := s.out.ReadByte()
		if err != nil {
			return sb.String()
		}
		sb.WriteByte(b)
		switch {
		case b == '|':
			inBar = !inBar
		case inBar:
		case b == '(':
			depth++
			started = true
		case b == ')':
			depth--
		}
		if started && depth == 0 {
			return sb.String()
		}
	}
}

// ParseModel parses "((|a| #x01) (b #b101) (c true))".
func ParseModel(txt string) map[string]uint64 {
	m := map[string]uint64{}
	i := 0
	n := len(txt)
	skip := func() {
		for i < n && (txt[i] == ' ' || txt[i] == '\n' || txt[i] == '\t' || txt[i] == '\r') {
			i++
		}
	}
	skip()
	if i < n && txt[i] == '(' {
		i++
	}
	for {
		skip()
		if i >= n || txt[i] != '(' {
			break
		}
		i++
		skip()
		var name string
		if txt[i] == '|' {
			j := strings.IndexByte(txt[i+1:], '|')
			name = txt[i+1 : i+1+j]
			i = i + 1 + j + 1
		} else {
			j := i
			for j < n && txt[j] != ' ' && txt[j] != ')' {
				j++
			}
			name = txt[i:j]
			i = j
		}
		skip()
		// value token (possibly parenthesised like (_ bv10 32))
		j := i
		depth := 0
		for j < n {
			if txt[j] == '(' {
				depth++
			} else if txt[j] == ')' {
				if depth == 0 {
					break
				}
				depth--
			}
			j++
		}
		val := strings.TrimSpace(txt[i:j])
		i = j + 1
		var v uint64
		switch {
		case strings.HasPrefix(val, "#x"):
			v, _ = strconv.ParseUint(val[2:], 16, 64)
		case strings.HasPrefix(val, "#b"):
			v, _ = strconv.ParseUint(val[2:], 2, 64)
		case val == "true":
			v = 1
		case val == "false":
			v = 0
		case strings.HasPrefix(val, "(_ bv"):
			f := strings.Fields(val[5:])
			v, _ = strconv.ParseUint(f[0], 10, 64)
		default:
			v, _ = strconv.ParseUint(val, 10, 64)
		}
		m[name] = v
	}
	return m
}

// OneShot runs a standalone script on a fresh solver process with a timeout.
func OneShot(kind string, script string, timeout time.Duration) (Result, map[string]uint64, time.Duration, error) {
	return oneShotCtx(context.Background(), kind, script, timeout)
}

// Race runs the script on several back ends at once; the first definitive
// answer wins and the others are killed.
func Race(kinds []string, script string, timeout time.Duration) (Result, map[string]uint64, string) {
	ctx, cancel := context.WithCancel(context.Background())
	defer cancel()
	type ans struct {
		r    Result
		m    map[string]uint64
		kind string
	}
	ch := make(chan ans, len(kinds))
	for _, k := range kinds {
		go func(k string) {
			r, m, _, err := oneShotCtx(ctx, k, script, timeout)
			if err != nil {
				r = Unknown
			}
			ch <- ans{r, m, k}
		}(k)
	}
	for range kinds {
		a := <-ch
		if a.r != Unknown {
			return a.r, a.m, a.kind
		}
	}
	return Unknown, nil, ""
}

func oneShotCtx(ctx context.Context, kind string, script string, timeout time.Duration) (Result, map[string]uint64, time.Duration, error) {
	argv := argvFor(kind, int(timeout/time.Millisecond))
	switch kind {
	case "z3", "z3-new":
		argv = append(argv, fmt.Sprintf("-T:%d", int(timeout/time.Second)+1))
	}
	start := time.Now()
	cmd := exec.CommandContext(ctx, argv[0], argv[1:]...)
	pre := "(set-option :produce-models true)\n"
	if !strings.HasPrefix(kind, "z3") && !strings.Contains(script, "(set-logic") {
		pre += "(set-logic ALL)\n"
	}
	cmd.Stdin = strings.NewReader(pre + script)
	outB, err := cmd.Output()
	el := time.Since(start)
	out := string(outB)
	// get-value after an unsat answer legitimately errors; nothing else may
	if i := strings.Index(out, "(error"); i >= 0 && strings.HasPrefix(strings.TrimSpace(out), "unsat") &&
		(strings.Contains(out[i:], "model is not available") || strings.Contains(out[i:], "cannot get value") || strings.Contains(out[i:], "Cannot get")) &&
		strings.Count(out, "(error") == 1 {
		out = out[:i]
	}
	if strings.Contains(out, "(error") {
		return Unknown, nil, el, fmt.Errorf("solver error: %s", firstLine(out[strings.Index(out, "(error"):]))
	}
	lines := strings.SplitN(strings.TrimSpace(out), "\n", 2)
	switch strings.TrimSpace(lines[0]) {
	case "unsat":
		return Unsat, nil, el, nil
	case "sat":
		var m map[string]uint64
		if len(lines) > 1 {
			m = ParseModel(lines[1])
		}
		return Sat, m, el, nil
	}
	_ = err
	return Unknown, nil, el, nil
}

func firstLine(s string) string {
	if i := strings.IndexByte(s, '\n'); i >= 0 {
		return s[:i]
	}
	return s
}
