package smt

import (
	"fmt"
	"math/big"
	"sort"
	"strings"
)

// Integer translation of bit-vector queries with range-based elimination of
// wrap-around: every BV term becomes an Int expression whose value equals the
// term's unsigned value; `mod 2^w` is emitted only where the interval
// analysis cannot exclude overflow. Division/remainder by constants, the
// core of decimal printing and parsing, then stay linear and both z3 and
// cvc5 decide them quickly where bit-blasting does not finish. Operators
// without a faithful linear rendering (general and/or/xor, sdiv, ashr,
// symbolic shifts, FP, UF) make the translation fail (ok=false): the query
// then stays on the bit-vector back ends.

type iexp struct {
	s      string
	lo, hi *big.Int
}

type intTr struct {
	c     *Ctx
	memo  map[uint32]*iexp
	bmemo map[uint32]string
	defs  strings.Builder
	vars  map[string]uint8
	ok    bool
	why   string
	n     int
}

var bigOne = big.NewInt(1)

func pow2(w uint) *big.Int { return new(big.Int).Lsh(bigOne, w) }

func maxOf(w uint8) *big.Int { return new(big.Int).Sub(pow2(uint(w)), bigOne) }

func (tr *intTr) fail(why string) *iexp {
	if tr.ok {
		tr.ok = false
		tr.why = why
	}
	return &iexp{s: "0", lo: big.NewInt(0), hi: big.NewInt(0)}
}

// name binds an expression to a fresh defined constant to keep the script a DAG.
func (tr *intTr) name(e *iexp) *iexp {
	if len(e.s) < 24 {
		return e
	}
	tr.n++
	n := fmt.Sprintf("i%d", tr.n)
	fmt.Fprintf(&tr.defs, "(define-fun %s () Int %s)\n", n, e.s)
	return &iexp{s: n, lo: e.lo, hi: e.hi}
}

func lit(v *big.Int) string {
	if v.Sign() < 0 {
		return "(- " + new(big.Int).Neg(v).String() + ")"
	}
	return v.String()
}

func (tr *intTr) modw(e *iexp, w uint) *iexp {
	m := pow2(w)
	if e.lo.Sign() >= 0 && e.hi.Cmp(m) < 0 {
		return e
	}
	// a single conditional subtraction/addition when the range spans < 2 periods
	if e.lo.Sign() >= 0 && e.hi.Cmp(new(big.Int).Lsh(m, 1)) < 0 {
		x := tr.name(e)
		return &iexp{s: fmt.Sprintf("(ite (>= %s %s) (- %s %s) %s)", x.s, m, x.s, m, x.s), lo: big.NewInt(0), hi: new(big.Int).Sub(m, bigOne)}
	}
	if e.hi.Cmp(m) < 0 && e.lo.Cmp(new(big.Int).Neg(m)) >= 0 {
		x := tr.name(e)
		return &iexp{s: fmt.Sprintf("(ite (< %s 0) (+ %s %s) %s)", x.s, x.s, m, x.s), lo: big.NewInt(0), hi: new(big.Int).Sub(m, bigOne)}
	}
	return &iexp{s: fmt.Sprintf("(mod %s %s)", e.s, m), lo: big.NewInt(0), hi: new(big.Int).Sub(m, bigOne)}
}

func (tr *intTr) bv(t *Term) *iexp {
	if e, ok := tr.memo[t.ID]; ok {
		return e
	}
	e := tr.bv0(t)
	e = tr.name(e)
	tr.memo[t.ID] = e
	return e
}

func (tr *intTr) bv0(t *Term) *iexp {
	w := uint(t.W)
	switch t.Op {
	case OpConst:
		v := new(big.Int).SetUint64(t.V)
		return &iexp{s: v.String(), lo: v, hi: v}
	case OpVar:
		n := "|" + t.Name + "|"
		tr.vars[t.Name] = t.W
		return &iexp{s: n, lo: big.NewInt(0), hi: maxOf(t.W)}
	case OpAdd:
		a := tr.bv(t.A)
		// x + K with K "negative": render as subtraction
		if t.B.IsConst() && t.B.V >= uint64(1)<<(w-1) && w <= 64 {
			k := new(big.Int).Sub(pow2(w), new(big.Int).SetUint64(t.B.V)) // x - k
			e := &iexp{s: fmt.Sprintf("(- %s %s)", a.s, k), lo: new(big.Int).Sub(a.lo, k), hi: new(big.Int).Sub(a.hi, k)}
			return tr.modw(e, w)
		}
		b := tr.bv(t.B)
		e := &iexp{s: fmt.Sprintf("(+ %s %s)", a.s, b.s), lo: new(big.Int).Add(a.lo, b.lo), hi: new(big.Int).Add(a.hi, b.hi)}
		return tr.modw(e, w)
	case OpSub:
		a, b := tr.bv(t.A), tr.bv(t.B)
		e := &iexp{s: fmt.Sprintf("(- %s %s)", a.s, b.s), lo: new(big.Int).Sub(a.lo, b.hi), hi: new(big.Int).Sub(a.hi, b.lo)}
		return tr.modw(e, w)
	case OpNeg:
		a := tr.bv(t.A)
		e := &iexp{s: fmt.Sprintf("(- %s)", a.s), lo: new(big.Int).Neg(a.hi), hi: new(big.Int).Neg(a.lo)}
		return tr.modw(e, w)
	case OpNot:
		a := tr.bv(t.A)
		m := maxOf(t.W)
		return &iexp{s: fmt.Sprintf("(- %s %s)", m, a.s), lo: new(big.Int).Sub(m, a.hi), hi: new(big.Int).Sub(m, a.lo)}
	case OpMul:
		a, b := tr.bv(t.A), tr.bv(t.B)
		if !t.A.IsConst() && !t.B.IsConst() {
			// nonlinear: allowed but flagged by range only
			e := &iexp{s: fmt.Sprintf("(* %s %s)", a.s, b.s), lo: new(big.Int).Mul(a.lo, b.lo), hi: new(big.Int).Mul(a.hi, b.hi)}
			return tr.modw(e, w)
		}
		e := &iexp{s: fmt.Sprintf("(* %s %s)", a.s, b.s), lo: new(big.Int).Mul(a.lo, b.lo), hi: new(big.Int).Mul(a.hi, b.hi)}
		return tr.modw(e, w)
	case OpUDiv, OpURem:
		a := tr.bv(t.A)
		if !t.B.IsConst() {
			b := tr.bv(t.B)
			if b.lo.Sign() == 0 {
				// SMT-LIB total semantics for division by zero
				if t.Op == OpUDiv {
					return &iexp{s: fmt.Sprintf("(ite (= %s 0) %s (div %s %s))", b.s, maxOf(t.W), a.s, b.s), lo: big.NewInt(0), hi: maxOf(t.W)}
				}
				return &iexp{s: fmt.Sprintf("(ite (= %s 0) %s (mod %s %s))", b.s, a.s, a.s, b.s), lo: big.NewInt(0), hi: a.hi}
			}
			if t.Op == OpUDiv {
				return &iexp{s: fmt.Sprintf("(div %s %s)", a.s, b.s), lo: big.NewInt(0), hi: a.hi}
			}
			return &iexp{s: fmt.Sprintf("(mod %s %s)", a.s, b.s), lo: big.NewInt(0), hi: new(big.Int).Sub(b.hi, bigOne)}
		}
		if t.B.V == 0 {
			if t.Op == OpUDiv {
				m := maxOf(t.W)
				return &iexp{s: m.String(), lo: m, hi: m}
			}
			return a
		}
		k := new(big.Int).SetUint64(t.B.V)
		if t.Op == OpUDiv {
			return &iexp{s: fmt.Sprintf("(div %s %s)", a.s, k), lo: new(big.Int).Div(a.lo, k), hi: new(big.Int).Div(a.hi, k)}
		}
		if a.hi.Cmp(k) < 0 {
			return a
		}
		return &iexp{s: fmt.Sprintf("(mod %s %s)", a.s, k), lo: big.NewInt(0), hi: new(big.Int).Sub(k, bigOne)}
	case OpShl:
		if !t.B.IsConst() {
			return tr.fail("symbolic shift")
		}
		a := tr.bv(t.A)
		if t.B.V >= uint64(w) {
			return &iexp{s: "0", lo: big.NewInt(0), hi: big.NewInt(0)}
		}
		k := pow2(uint(t.B.V))
		e := &iexp{s: fmt.Sprintf("(* %s %s)", a.s, k), lo: new(big.Int).Mul(a.lo, k), hi: new(big.Int).Mul(a.hi, k)}
		return tr.modw(e, w)
	case OpLShr:
		if !t.B.IsConst() {
			return tr.fail("symbolic shift")
		}
		a := tr.bv(t.A)
		if t.B.V >= uint64(w) {
			return &iexp{s: "0", lo: big.NewInt(0), hi: big.NewInt(0)}
		}
		k := pow2(uint(t.B.V))
		return &iexp{s: fmt.Sprintf("(div %s %s)", a.s, k), lo: new(big.Int).Div(a.lo, k), hi: new(big.Int).Div(a.hi, k)}
	case OpAnd:
		if t.B.IsConst() {
			a := tr.bv(t.A)
			m := t.B.V
			// low mask 2^k-1
			if m&(m+1) == 0 {
				k := uint(0)
				for x := m; x != 0; x >>= 1 {
					k++
				}
				if a.hi.Cmp(pow2(k)) < 0 {
					return a
				}
				return &iexp{s: fmt.Sprintf("(mod %s %s)", a.s, pow2(k)), lo: big.NewInt(0), hi: new(big.Int).Sub(pow2(k), bigOne)}
			}
			// high mask: clear the low k bits
			inv := ^m & mask(t.W)
			if inv&(inv+1) == 0 {
				k := uint(0)
				for x := inv; x != 0; x >>= 1 {
					k++
				}
				x := tr.name(a)
				return &iexp{s: fmt.Sprintf("(- %s (mod %s %s))", x.s, x.s, pow2(k)), lo: big.NewInt(0), hi: a.hi}
			}
			// single bit test mask 2^k: (a div 2^k mod 2) * 2^k
			if m&(m-1) == 0 {
				k := uint(0)
				for x := m; x > 1; x >>= 1 {
					k++
				}
				return &iexp{s: fmt.Sprintf("(* (mod (div %s %s) 2) %s)", a.s, pow2(k), pow2(k)), lo: big.NewInt(0), hi: pow2(k)}
			}
		}
		return tr.fail("bvand")
	case OpOr, OpXor:
		// disjoint bit ranges: a < 2^k and b multiple of 2^k  => a + b
		a, b := tr.bv(t.A), tr.bv(t.B)
		if k, ok := lowZeroBits(t.B); ok && a.hi.Cmp(pow2(k)) < 0 {
			return &iexp{s: fmt.Sprintf("(+ %s %s)", a.s, b.s), lo: new(big.Int).Add(a.lo, b.lo), hi: new(big.Int).Add(a.hi, b.hi)}
		}
		if k, ok := lowZeroBits(t.A); ok && b.hi.Cmp(pow2(k)) < 0 {
			return &iexp{s: fmt.Sprintf("(+ %s %s)", a.s, b.s), lo: new(big.Int).Add(a.lo, b.lo), hi: new(big.Int).Add(a.hi, b.hi)}
		}
		return tr.fail("bvor/bvxor")
	case OpExtract:
		hi, lo := uint(t.V>>8), uint(t.V&0xff)
		a := tr.bv(t.A)
		e := a
		if lo > 0 {
			k := pow2(lo)
			e = &iexp{s: fmt.Sprintf("(div %s %s)", a.s, k), lo: new(big.Int).Div(a.lo, k), hi: new(big.Int).Div(a.hi, k)}
		}
		m := pow2(hi - lo + 1)
		if e.hi.Cmp(m) < 0 {
			return e
		}
		return &iexp{s: fmt.Sprintf("(mod %s %s)", e.s, m), lo: big.NewInt(0), hi: new(big.Int).Sub(m, bigOne)}
	case OpConcat:
		a, b := tr.bv(t.A), tr.bv(t.B)
		k := pow2(uint(t.B.W))
		return &iexp{s: fmt.Sprintf("(+ (* %s %s) %s)", a.s, k, b.s),
			lo: new(big.Int).Add(new(big.Int).Mul(a.lo, k), b.lo), hi: new(big.Int).Add(new(big.Int).Mul(a.hi, k), b.hi)}
	case OpZExt:
		return tr.bv(t.A)
	case OpSExt:
		a := tr.bv(t.A)
		half := pow2(uint(t.A.W) - 1)
		if a.hi.Cmp(half) < 0 {
			return a
		}
		d := new(big.Int).Sub(pow2(w), pow2(uint(t.A.W)))
		x := tr.name(a)
		return &iexp{s: fmt.Sprintf("(ite (>= %s %s) (+ %s %s) %s)", x.s, half, x.s, d, x.s), lo: big.NewInt(0), hi: maxOf(t.W)}
	case OpIte:
		c := tr.b(t.A)
		a, b := tr.bv(t.B), tr.bv(t.C)
		lo, hi := a.lo, a.hi
		if b.lo.Cmp(lo) < 0 {
			lo = b.lo
		}
		if b.hi.Cmp(hi) > 0 {
			hi = b.hi
		}
		return &iexp{s: fmt.Sprintf("(ite %s %s %s)", c, a.s, b.s), lo: lo, hi: hi}
	}
	return tr.fail(fmt.Sprintf("operator %d", t.Op))
}

// lowZeroBits: t is provably a multiple of 2^k (k>0).
func lowZeroBits(t *Term) (uint, bool) {
	switch t.Op {
	case OpShl:
		if t.B.IsConst() && t.B.V > 0 && t.B.V < 64 {
			return uint(t.B.V), true
		}
	case OpMul:
		if t.B.IsConst() && t.B.V != 0 && t.B.V&(t.B.V-1) == 0 {
			k := uint(0)
			for x := t.B.V; x > 1; x >>= 1 {
				k++
			}
			if k > 0 {
				return k, true
			}
		}
	case OpConst:
		if t.V != 0 {
			k := uint(0)
			for x := t.V; x&1 == 0; x >>= 1 {
				k++
			}
			if k > 0 {
				return k, true
			}
		}
	case OpZExt:
		return lowZeroBits(t.A)
	}
	return 0, false
}

func (tr *intTr) signed(t *Term) string {
	a := tr.bv(t)
	half := pow2(uint(t.W) - 1)
	if a.hi.Cmp(half) < 0 {
		return a.s
	}
	return fmt.Sprintf("(ite (>= %s %s) (- %s %s) %s)", a.s, half, a.s, pow2(uint(t.W)), a.s)
}

func (tr *intTr) b(t *Term) string {
	if s, ok := tr.bmemo[t.ID]; ok {
		return s
	}
	var s string
	switch t.Op {
	case OpConst:
		if t.V != 0 {
			s = "true"
		} else {
			s = "false"
		}
	case OpVar:
		tr.vars[t.Name] = 0
		s = "|" + t.Name + "|"
	case OpEq:
		if t.A.W == 0 {
			s = fmt.Sprintf("(= %s %s)", tr.b(t.A), tr.b(t.B))
		} else {
			s = fmt.Sprintf("(= %s %s)", tr.bv(t.A).s, tr.bv(t.B).s)
		}
	case OpUlt:
		s = fmt.Sprintf("(< %s %s)", tr.bv(t.A).s, tr.bv(t.B).s)
	case OpUle:
		s = fmt.Sprintf("(<= %s %s)", tr.bv(t.A).s, tr.bv(t.B).s)
	case OpSlt:
		s = fmt.Sprintf("(< %s %s)", tr.signed(t.A), tr.signed(t.B))
	case OpSle:
		s = fmt.Sprintf("(<= %s %s)", tr.signed(t.A), tr.signed(t.B))
	case OpBNot:
		s = fmt.Sprintf("(not %s)", tr.b(t.A))
	case OpBAnd:
		s = fmt.Sprintf("(and %s %s)", tr.b(t.A), tr.b(t.B))
	case OpBOr:
		s = fmt.Sprintf("(or %s %s)", tr.b(t.A), tr.b(t.B))
	case OpIte:
		s = fmt.Sprintf("(ite %s %s %s)", tr.b(t.A), tr.b(t.B), tr.b(t.C))
	default:
		tr.fail(fmt.Sprintf("bool operator %d", t.Op))
		s = "false"
	}
	if len(s) > 24 {
		tr.n++
		n := fmt.Sprintf("b%d", tr.n)
		fmt.Fprintf(&tr.defs, "(define-fun %s () Bool %s)\n", n, s)
		s = n
	}
	tr.bmemo[t.ID] = s
	return s
}

// IntScript renders the conjunction of asserts as an integer-arithmetic
// script. ok=false (with the reason) when some operator cannot be rendered.
func (c *Ctx) IntScript(asserts []*Term) (script string, ok bool, why string) {
	tr := &intTr{c: c, memo: map[uint32]*iexp{}, bmemo: map[uint32]string{}, vars: map[string]uint8{}, ok: true}
	var as []string
	for _, a := range asserts {
		as = append(as, tr.b(a))
	}
	if !tr.ok {
		return "", false, tr.why
	}
	var sb strings.Builder
	var names []string
	for n := range tr.vars {
		names = append(names, n)
	}
	sort.Strings(names)
	for _, n := range names {
		w := tr.vars[n]
		if w == 0 {
			fmt.Fprintf(&sb, "(declare-fun |%s| () Bool)\n", n)
			continue
		}
		fmt.Fprintf(&sb, "(declare-fun |%s| () Int)\n(assert (and (<= 0 |%s|) (<= |%s| %s)))\n", n, n, n, maxOf(w))
	}
	sb.WriteString(tr.defs.String())
	for _, a := range as {
		sb.WriteString("(assert " + a + ")\n")
	}
	sb.WriteString("(check-sat)\n")
	if len(names) > 0 {
		sb.WriteString("(get-value (")
		for _, n := range names {
			sb.WriteString("|" + n + "| ")
		}
		sb.WriteString("))\n")
	}
	return sb.String(), true, ""
}
