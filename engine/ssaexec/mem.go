package ssaexec

import (
	"fmt"
	"os"
	"sort"
	"go/types"
	"strings"

	"gosym/smt"
)

type Value interface{}
type Agg []Value

func tm(v Value) *smt.Term {
	t, ok := v.(*smt.Term)
	if !ok {
		panic(fmt.Sprintf("expected scalar term, got %T", v))
	}
	return t
}

const (
	objBase   = uint64(0xc000000000)
	objShift  = 24
	tokenBase = uint64(0xa000000000)
	tokenStep = uint64(0x30) // like real type descriptors: at least 48 bytes apart
	closBase  = uint64(0xb000000000)
	mapBase   = uint64(0xb800000000)
	itabBase  = uint64(0xa800000000)
)

type Object struct {
	id     int
	size   int
	data   []*smt.Term // one BV8 per byte; nil = 0
	frozen bool        // belongs to the shared base snapshot: copy before write
	name   string
	ro     bool
}

func (o *Object) base() uint64 { return objBase + uint64(o.id)<<objShift }

type Closure struct {
	fn   interface{} // *ssa.Function
	bind []Value
}

type MapObj struct {
	frozen bool
	keys   []Value
	vals   []Value
	ktyp   types.Type
	vtyp   types.Type
	// runtime-map form (reflect.makemap etc.): keys/values are stored by value too
}

// pathEnd is thrown (via panic) to terminate the current path.
type pathEnd struct {
	status string // OK, PANIC, OOB, UNSUPPORTED, UNWIND, INFEASIBLE, ASSUME, ABORT
	msg    string
	pos    string
}

func (st *State) end(status, format string, args ...interface{}) {
	panic(&pathEnd{status: status, msg: fmt.Sprintf(format, args...), pos: st.curPos()})
}

// ---------------------------------------------------------------- allocation

func (st *State) newObject(size int, name string) *Object {
	if size < 0 || size > 1<<objShift-4096 {
		st.end("UNSUPPORTED", "allocation of %d bytes", size)
	}
	o := &Object{id: len(st.objs), size: size, name: name}
	if size > 0 {
		o.data = make([]*smt.Term, size)
	}
	st.objs = append(st.objs, o)
	return o
}

func (st *State) alloc(size int, name string) *smt.Term {
	return st.c.Const(st.newObject(size, name).base(), 64)
}

func (st *State) writable(o *Object) *Object {
	if !o.frozen {
		return o
	}
	n := &Object{id: o.id, size: o.size, name: o.name, ro: o.ro}
	n.data = append([]*smt.Term(nil), o.data...)
	st.objs[o.id] = n
	return n
}

func (st *State) objAt(addr uint64) *Object {
	if addr < objBase {
		return nil
	}
	i := (addr - objBase) >> objShift
	if i >= uint64(len(st.objs)) {
		return nil
	}
	return st.objs[i]
}

// splitAddr splits an address term into a constant part and a symbolic rest
// (nil when fully concrete).
func (st *State) splitAddr(t *smt.Term) (k uint64, rest *smt.Term) {
	switch {
	case t.IsConst():
		return t.V, nil
	case t.Op == smt.OpAdd:
		k1, r1 := st.splitAddr(t.A)
		k2, r2 := st.splitAddr(t.B)
		switch {
		case r1 == nil:
			return k1 + k2, r2
		case r2 == nil:
			return k1 + k2, r1
		default:
			return k1 + k2, st.c.Add(r1, r2)
		}
	}
	return 0, t
}

// resolve finds the object an access of n bytes at addr falls into. The
// offset is returned either concretely (symOff == nil) or as a term; the
// in-bounds obligation is discharged here (a feasible out-of-bounds access
// ends the path as OOB on that side).
func (st *State) resolve(addr *smt.Term, n int, write bool) (o *Object, off int, symOff *smt.Term) {
	if addr.Op == smt.OpIte {
		// pointer chosen by a condition: decide it
		if st.branch(addr.A, "ptr-ite") {
			return st.resolve(addr.B, n, write)
		}
		return st.resolve(addr.C, n, write)
	}
	k, rest := st.splitAddr(addr)
	if rest != nil && rest.Op == smt.OpIte {
		if st.branch(rest.A, "ptr-ite") {
			return st.resolve(st.c.Add(st.c.Const(k, 64), rest.B), n, write)
		}
		return st.resolve(st.c.Add(st.c.Const(k, 64), rest.C), n, write)
	}
	if rest == nil && k < 4096 {
		st.end("PANIC", "nil pointer dereference (addr %#x)", k)
	}
	o = st.objAt(k)
	if o == nil {
		if k >= tokenBase && k < closBase {
			st.end("UNSUPPORTED", "dereference of a type token / itab (%#x)", k)
		}
		if rest != nil {
			// a pointer assembled from conditional bytes (loaded at a symbolic offset): fork on its
			// feasible values (at most 64) instead of giving up
			if !st.w.Opt.IsConcrete && !st.lenient && st.resolveDepth < 2 {
				st.resolveDepth++
				k := st.concretize(addr, "pointer value")
				o, off, symOff = st.resolve(k, n, write)
				st.resolveDepth--
				return o, off, symOff
			}
			st.end("UNSUPPORTED", "cannot resolve symbolic address %v", addr)
		}
		st.end("OOB", "access to unmapped address %#x", k)
	}
	base := o.base()
	if rest == nil {
		off = int(k - base)
		if off < 0 || off+n > o.size {
			st.end("OOB", "access [%d,%d) outside object %q of %d bytes", off, off+n, o.name, o.size)
		}
	} else {
		symOff = st.c.Add(rest, st.c.Const(k-base, 64))
		// obligation: 0 <= symOff <= size-n (unsigned compare covers negatives)
		if o.size < n {
			st.end("OOB", "access of %d bytes to object %q of %d bytes", n, o.name, o.size)
		}
		inb := st.c.Ule(symOff, st.c.Const(uint64(o.size-n), 64))
		if !st.branch(inb, "inbounds") {
			st.end("OOB", "symbolic offset outside object %q of %d bytes", o.name, o.size)
		}
	}
	if write {
		if o.ro {
			st.end("OOB", "write to read-only object %q", o.name)
		}
		o = st.writable(o)
	}
	return
}

func (st *State) byteAt(o *Object, i int) *smt.Term {
	if b := o.data[i]; b != nil {
		return b
	}
	return st.zero8
}

// loadBytes returns n byte terms, little-endian order.
func (st *State) loadBytes(addr *smt.Term, n int) []*smt.Term {
	if n == 0 {
		return nil
	}
	o, off, sym := st.resolve(addr, n, false)
	out := make([]*smt.Term, n)
	if sym == nil {
		for i := 0; i < n; i++ {
			out[i] = st.byteAt(o, off+i)
		}
		return out
	}
	// verified table formula (see verifrt.TableFormula)
	if ts := st.tables[o.id]; ts != nil && n == ts.es {
		var idx *smt.Term
		switch {
		case ts.es == 1:
			idx = sym
		case sym.Op == smt.OpMul && sym.B.IsConst() && sym.B.V == uint64(ts.es):
			if _, h := urange(sym.A, 0); h < uint64(ts.cnt) {
				idx = sym.A
			}
		}
		if idx != nil {
			if _, h := urange(idx, 0); h < uint64(ts.cnt) {
				v := tm(st.callValue(ts.f, []Value{idx}))
				return st.termToBytes(st.c.Extract(v, uint8(n*8-1), 0), n)
			}
		}
	}
	// symbolic offset: ite chain over feasible offsets
	cands := st.offsetCandidates(sym, o.size-n)
	if n > 1 && (n <= 8 || (n%8 == 0 && n <= 64)) {
		// word-level chains (keep loaded pointers / interface words recognisable as an ite of constants)
		for base := 0; base < n; base += 8 {
			wn := n - base
			if wn > 8 {
				wn = 8
			}
			var acc *smt.Term
			for j := len(cands) - 1; j >= 0; j-- {
				bs := make([]*smt.Term, wn)
				for i := 0; i < wn; i++ {
					bs[i] = st.byteAt(o, cands[j]+base+i)
				}
				w := st.bytesToTerm(bs)
				if acc == nil {
					acc = w
				} else {
					acc = st.c.Ite(st.c.Eq(sym, st.c.Const(uint64(cands[j]), 64)), w, acc)
				}
			}
			copy(out[base:], st.termToBytes(acc, wn))
		}
		return out
	}
	for i := 0; i < n; i++ {
		var acc *smt.Term
		for j := len(cands) - 1; j >= 0; j-- {
			b := st.byteAt(o, cands[j]+i)
			if acc == nil {
				acc = b
			} else {
				acc = st.c.Ite(st.c.Eq(sym, st.c.Const(uint64(cands[j]), 64)), b, acc)
			}
		}
		out[i] = acc
	}
	return out
}

// urange: a sound unsigned over-approximation [lo,hi] of a term's value.
func urange(t *smt.Term, depth int) (lo, hi uint64) {
	return urangeD(t, depth, nil)
}

// urangeD: urange with per-variable byte domains (implied by the path condition).
func urangeD(t *smt.Term, depth int, dom map[uint32]*[4]uint64) (lo, hi uint64) {
	full := ^uint64(0)
	if t.W < 64 {
		full = (uint64(1) << t.W) - 1
	}
	if t.IsConst() {
		return t.V, t.V
	}
	if depth > 40 {
		return 0, full
	}
	urange := func(x *smt.Term, d int) (uint64, uint64) { return urangeD(x, d, dom) }
	switch t.Op {
	case smt.OpVar:
		if dom != nil && t.W == 8 {
			if d := dom[t.ID]; d != nil {
				lo, hi = 255, 0
				for x := 0; x < 256; x++ {
					if d[x>>6]&(1<<(uint(x)&63)) != 0 {
						if uint64(x) < lo {
							lo = uint64(x)
						}
						if uint64(x) > hi {
							hi = uint64(x)
						}
					}
				}
				if lo <= hi {
					return lo, hi
				}
			}
		}
		return 0, full
	case smt.OpExtract:
		if t.V&0xff == 0 {
			l, h := urange(t.A, depth+1)
			if h <= full {
				return l, h
			}
		}
		return 0, full
	case smt.OpConcat:
		la, ha := urange(t.A, depth+1)
		lb, hb := urange(t.B, depth+1)
		return la<<t.B.W | lb, ha<<t.B.W | hb
	case smt.OpURem:
		if t.B.IsConst() && t.B.V > 0 {
			_, h := urange(t.A, depth+1)
			if h < t.B.V-1 {
				return 0, h
			}
			return 0, t.B.V - 1
		}
	case smt.OpAnd:
		_, ha := urange(t.A, depth+1)
		_, hb := urange(t.B, depth+1)
		if hb < ha {
			ha = hb
		}
		return 0, ha
	case smt.OpZExt:
		return urange(t.A, depth+1)
	case smt.OpUDiv:
		if t.B.IsConst() && t.B.V > 0 {
			l, h := urange(t.A, depth+1)
			return l / t.B.V, h / t.B.V
		}
	case smt.OpLShr:
		if t.B.IsConst() && t.B.V < 64 {
			l, h := urange(t.A, depth+1)
			return l >> t.B.V, h >> t.B.V
		}
	case smt.OpIte:
		l1, h1 := urange(t.B, depth+1)
		l2, h2 := urange(t.C, depth+1)
		if l2 < l1 {
			l1 = l2
		}
		if h2 > h1 {
			h1 = h2
		}
		return l1, h1
	case smt.OpMul:
		if t.B.IsConst() {
			l, h := urange(t.A, depth+1)
			if t.B.V != 0 && h <= full/t.B.V {
				return l * t.B.V, h * t.B.V
			}
		}
	case smt.OpShl:
		if t.B.IsConst() && t.B.V < 64 {
			l, h := urange(t.A, depth+1)
			if h <= full>>t.B.V {
				return l << t.B.V, h << t.B.V
			}
		}
	case smt.OpAdd:
		l1, h1 := urange(t.A, depth+1)
		if t.B.IsConst() && t.B.V > full/2 {
			k := (full - t.B.V) + 1 // x - k
			if l1 >= k {
				return l1 - k, h1 - k
			}
			return 0, full
		}
		l2, h2 := urange(t.B, depth+1)
		if h1 <= full-h2 {
			return l1 + l2, h1 + h2
		}
	}
	return 0, full
}

// stride: every value of t is congruent to phase modulo stride (stride a
// power of two or any constant multiplier; 1 = no information).
func stride(t *smt.Term, depth int) (step, phase uint64) {
	if t.IsConst() {
		return 0, t.V // exact
	}
	if depth > 8 {
		return 1, 0
	}
	switch t.Op {
	case smt.OpMul:
		if t.B.IsConst() && t.B.V > 0 {
			if t.B.V&(t.B.V-1) == 0 {
				return t.B.V, 0 // multiples of a power of two stay multiples modulo 2^64
			}
			if _, h := urange(t.A, 0); h <= (^uint64(0))/t.B.V {
				return t.B.V, 0
			}
		}
	case smt.OpShl:
		if t.B.IsConst() && t.B.V < 32 {
			return uint64(1) << t.B.V, 0
		}
	case smt.OpAdd:
		s1, p1 := stride(t.A, depth+1)
		s2, p2 := stride(t.B, depth+1)
		_, h1 := urange(t.A, 0)
		_, h2 := urange(t.B, 0)
		pow2 := func(x uint64) bool { return x == 0 || x&(x-1) == 0 }
		if h1 > ^uint64(0)-h2 && !(pow2(s1) && pow2(s2)) {
			return 1, 0 // may wrap (harmless only for power-of-two strides: 2^64 is a multiple)
		}
		switch {
		case s1 == 0 && s2 == 0:
			return 0, p1 + p2
		case s1 == 0:
			return s2, (p1 + p2) % s2
		case s2 == 0:
			return s1, (p1 + p2) % s1
		case s1 == s2:
			return s1, (p1 + p2) % s1
		}
	}
	return 1, 0
}

// offsetCandidates lists the concrete offsets 0..max that a symbolic offset
// can take, pruned by a sound interval/stride analysis of the offset term.
func (st *State) offsetCandidates(sym *smt.Term, max int) []int {
	// single byte variable: the exact value set over its domain
	if ids, small := sym.Supp(); small && len(ids) == 1 {
		if v := st.c.TermByID(ids[0]); v.W == 8 {
			dom := st.domains[v.ID]
			seen := map[int]bool{}
			var out []int
			var cur uint64
			env := func(*smt.Term) uint64 { return cur }
			okAll := true
			for x := 0; x < 256 && okAll; x++ {
				if dom != nil && dom[x>>6]&(1<<(uint(x)&63)) == 0 {
					continue
				}
				cur = uint64(x)
				r, ok := st.c.Eval(sym, env)
				if !ok {
					okAll = false
					break
				}
				if r <= uint64(max) && !seen[int(r)] {
					seen[int(r)] = true
					out = append(out, int(r))
				}
			}
			if okAll {
				if len(out) == 0 {
					st.end("INFEASIBLE", "no candidate offset")
				}
				sort.Ints(out)
				return out
			}
		}
	}
	lo, hi := urangeD(sym, 0, st.domains)
	step, phase := stride(sym, 0)
	if step == 0 {
		step, phase = 1, 0
	}
	if hi > uint64(max) {
		hi = uint64(max)
	}
	var out []int
	for i := lo; i <= hi; i++ {
		if step > 1 && i%step != phase%step {
			continue
		}
		out = append(out, int(i))
		if len(out) > 4096 {
			st.end("UNSUPPORTED", "symbolic offset with more than 4096 candidate positions")
		}
	}
	if len(out) == 0 {
		st.end("INFEASIBLE", "no candidate offset")
	}
	return out
}

func (st *State) storeBytes(addr *smt.Term, bs []*smt.Term) {
	n := len(bs)
	if n == 0 {
		return
	}
	o, off, sym := st.resolve(addr, n, true)
	if sym == nil {
		for i := 0; i < n; i++ {
			o.data[off+i] = bs[i]
		}
		return
	}
	max := o.size - n
	cands := st.offsetCandidates(sym, max)
	// every cell s+i becomes ite(sym == s, bs[i], old)
	newData := append([]*smt.Term(nil), o.data...)
	for _, s := range cands {
		eq := st.c.Eq(sym, st.c.Const(uint64(s), 64))
		for i := 0; i < n; i++ {
			cur := newData[s+i]
			if cur == nil {
				cur = st.zero8
			}
			newData[s+i] = st.c.Ite(eq, bs[i], cur)
		}
	}
	o.data = newData
}

// scalar assembly
func (st *State) bytesToTerm(bs []*smt.Term) *smt.Term {
	acc := bs[len(bs)-1]
	for i := len(bs) - 2; i >= 0; i-- {
		acc = st.c.Concat(acc, bs[i])
	}
	return acc
}

func (st *State) termToBytes(t *smt.Term, n int) []*smt.Term {
	out := make([]*smt.Term, n)
	for i := 0; i < n; i++ {
		out[i] = st.c.Extract(t, uint8(i*8+7), uint8(i*8))
	}
	return out
}

func (st *State) loadWord(addr *smt.Term) *smt.Term {
	return st.bytesToTerm(st.loadBytes(addr, 8))
}

func (st *State) storeWord(addr *smt.Term, v *smt.Term) {
	st.storeBytes(addr, st.termToBytes(v, 8))
}

func (st *State) addrAdd(addr *smt.Term, k int64) *smt.Term {
	if k == 0 {
		return addr
	}
	return st.c.Add(addr, st.c.Const(uint64(k), 64))
}

// loadT loads a value of Go type t.
func (st *State) loadT(addr *smt.Term, t types.Type) Value {
	ti := st.tc.of(t)
	switch ti.kind {
	case kBool:
		b := st.loadBytes(addr, 1)[0]
		return st.c.BV2B(b)
	case kInt, kFloat, kPtr:
		r := st.bytesToTerm(st.loadBytes(addr, int(ti.size)))
		if !st.lenient && !r.IsConst() {
			st.checkPoison(r)
		}
		return r
	case kString:
		bs := st.loadBytes(addr, 16)
		return Agg{st.bytesToTerm(bs[:8]), st.bytesToTerm(bs[8:])}
	case kSlice:
		bs := st.loadBytes(addr, 24)
		return Agg{st.bytesToTerm(bs[:8]), st.bytesToTerm(bs[8:16]), st.bytesToTerm(bs[16:])}
	case kIface:
		bs := st.loadBytes(addr, 16)
		return Agg{st.bytesToTerm(bs[:8]), st.bytesToTerm(bs[8:])}
	case kStruct:
		out := make(Agg, len(ti.fields))
		for i, f := range ti.fields {
			out[i] = st.loadT(st.addrAdd(addr, f.off), f.typ)
		}
		return out
	case kArray:
		out := make(Agg, ti.n)
		es := st.tc.of(ti.elem).size
		for i := int64(0); i < ti.n; i++ {
			out[i] = st.loadT(st.addrAdd(addr, i*es), ti.elem)
		}
		return out
	}
	st.end("UNSUPPORTED", "load of type %s", t)
	return nil
}

func (st *State) storeT(addr *smt.Term, t types.Type, v Value) {
	ti := st.tc.of(t)
	switch ti.kind {
	case kBool:
		st.storeBytes(addr, []*smt.Term{st.c.B2BV(tm(v), 8)})
	case kInt, kFloat, kPtr:
		x := tm(v)
		if int64(x.W) != ti.size*8 {
			panic(fmt.Sprintf("store width mismatch: %d-bit term into %s", x.W, t))
		}
		st.storeBytes(addr, st.termToBytes(x, int(ti.size)))
	case kString, kSlice, kIface:
		a := v.(Agg)
		for i, w := range a {
			st.storeBytes(st.addrAdd(addr, int64(i)*8), st.termToBytes(tm(w), 8))
		}
	case kStruct:
		a := v.(Agg)
		for i, f := range ti.fields {
			st.storeT(st.addrAdd(addr, f.off), f.typ, a[i])
		}
	case kArray:
		a := v.(Agg)
		es := st.tc.of(ti.elem).size
		for i := int64(0); i < ti.n; i++ {
			st.storeT(st.addrAdd(addr, i*es), ti.elem, a[i])
		}
	default:
		st.end("UNSUPPORTED", "store of type %s", t)
	}
}

func (st *State) zeroValue(t types.Type) Value {
	ti := st.tc.of(t)
	switch ti.kind {
	case kBool:
		return st.c.False
	case kInt, kFloat, kPtr:
		return st.c.Const(0, ti.width)
	case kString, kIface:
		return Agg{st.zero64, st.zero64}
	case kSlice:
		return Agg{st.zero64, st.zero64, st.zero64}
	case kStruct:
		out := make(Agg, len(ti.fields))
		for i, f := range ti.fields {
			out[i] = st.zeroValue(f.typ)
		}
		return out
	case kArray:
		out := make(Agg, ti.n)
		for i := range out {
			out[i] = st.zeroValue(ti.elem)
		}
		return out
	case kTuple:
		out := make(Agg, len(ti.fields))
		for i, f := range ti.fields {
			out[i] = st.zeroValue(f.typ)
		}
		return out
	}
	st.end("UNSUPPORTED", "zero value of type %s", t)
	return nil
}

// ---------------------------------------------------------------- strings

// constString materialises a Go string constant as a read-only object.
func (st *State) constString(s string) Value {
	if len(s) == 0 {
		return Agg{st.zero64, st.zero64}
	}
	if a, ok := st.strIntern[s]; ok {
		return Agg{st.c.Const(a, 64), st.c.Const(uint64(len(s)), 64)}
	}
	o := st.newObject(len(s), "str:"+abbrev(s))
	for i := 0; i < len(s); i++ {
		o.data[i] = st.c.Const(uint64(s[i]), 8)
	}
	o.ro = true
	st.strIntern[s] = o.base()
	return Agg{st.c.Const(o.base(), 64), st.c.Const(uint64(len(s)), 64)}
}

func abbrev(s string) string {
	if len(s) > 16 {
		return s[:16]
	}
	return s
}

// concreteLen requires a concrete length term.
func (st *State) concreteInt(t *smt.Term, what string) int {
	if !t.IsConst() {
		t = st.concretize(t, what)
	}
	return int(int64(t.V))
}

// concretize forks on the value of a symbolic integer that the engine needs
// concretely (a length, a capacity): one decision per feasible value.
func (st *State) concretize(t *smt.Term, what string) *smt.Term {
	if st.w.Opt.IsConcrete || st.lenient {
		st.end("UNSUPPORTED", "symbolic %s: %v", what, t)
	}
	nt := st.simplifyUnderDomains(t, map[uint32]*smt.Term{}, 0)
	if nt.IsConst() {
		return nt
	}
	t = nt
	if ids, small := t.Supp(); small && len(ids) == 1 {
		v := st.c.TermByID(ids[0])
		if v.W == 8 {
			dom := st.domains[v.ID]
			seen := map[uint64]bool{}
			var vals []uint64
			var cur uint64
			env := func(*smt.Term) uint64 { return cur }
			for x := 0; x < 256; x++ {
				if dom != nil && dom[x>>6]&(1<<(uint(x)&63)) == 0 {
					continue
				}
				cur = uint64(x)
				r, ok := st.c.Eval(t, env)
				if !ok {
					st.end("UNSUPPORTED", "symbolic %s: %v", what, t)
				}
				if !seen[r] {
					seen[r] = true
					vals = append(vals, r)
				}
			}
			if len(vals) > 64 {
				st.end("UNSUPPORTED", "symbolic %s with %d possible values", what, len(vals))
			}
			for i, val := range vals {
				k := st.c.Const(val, t.W)
				if i == len(vals)-1 || st.branch(st.c.Eq(t, k), "concretize") {
					return k
				}
			}
		}
	}
	// general case: enumerate models
	if os.Getenv("GOSYM_TRACE") != "" {
		ids, small := t.Supp()
		fmt.Fprintf(os.Stderr, "CONCRETIZE-GENERAL %s supp=%v small=%v: %v\n", what, ids, small, t)
	}
	for n := 0; n < 64; n++ {
		r, m := st.model()
		if r != smt.Sat {
			st.end("UNSUPPORTED", "symbolic %s: cannot enumerate values", what)
		}
		val, ok := st.c.Eval(t, func(v *smt.Term) uint64 { return m[v.Name] })
		if !ok {
			st.end("UNSUPPORTED", "symbolic %s: %v", what, t)
		}
		k := st.c.Const(val, t.W)
		if st.branch(st.c.Eq(t, k), "concretize") {
			return k
		}
	}
	st.end("UNSUPPORTED", "symbolic %s with more than 64 values", what)
	return nil
}

// stringBytes returns the byte terms of a string/slice-of-bytes value with
// concrete length.
func (st *State) seqBytes(ptr, ln *smt.Term) []*smt.Term {
	n := st.concreteInt(ln, "length")
	if n == 0 {
		return nil
	}
	return st.loadBytes(ptr, n)
}

// goString extracts a concrete Go string (all bytes must be concrete).
func (st *State) goString(v Value) string {
	a := v.(Agg)
	bs := st.seqBytes(tm(a[0]), tm(a[1]))
	out := make([]byte, len(bs))
	for i, b := range bs {
		if !b.IsConst() {
			st.end("UNSUPPORTED", "symbolic string where a concrete one is needed")
		}
		out[i] = byte(b.V)
	}
	return string(out)
}

func (st *State) newBytesObject(bs []*smt.Term, capacity int, name string) *smt.Term {
	if capacity < len(bs) {
		capacity = len(bs)
	}
	o := st.newObject(capacity, name)
	copy(o.data, bs)
	return st.c.Const(o.base(), 64)
}

func (st *State) checkPoison(t *smt.Term) {
	ids, ok := t.Supp()
	if !ok {
		return
	}
	for _, id := range ids {
		if strings.HasPrefix(st.c.TermByID(id).Name, "poison!") {
			st.end("UNSUPPORTED", "read of a value whose initialiser could not be executed")
		}
	}
}
