package ssaexec

import (
	"fmt"
	"go/constant"
	"go/token"
	"go/types"
	"math"
	"os"

	"golang.org/x/tools/go/ssa"
	"golang.org/x/tools/go/ssa/ssautil"

	"gosym/smt"
)

const maxDepth = 3000

func (st *State) get(v ssa.Value) Value {
	switch v := v.(type) {
	case *ssa.Const:
		return st.constValue(v)
	case *ssa.Global:
		return st.c.Const(st.globalAddr(v), 64)
	case *ssa.Function:
		return st.c.Const(st.w.funcAddrOf(v), 64)
	case *ssa.Builtin:
		return v
	}
	i, ok := st.frame.info.index[v]
	if !ok {
		panic(fmt.Sprintf("no register for %s (%T) in %s", v.Name(), v, st.frame.fn))
	}
	r := st.frame.regs[i]
	if r == nil {
		panic(fmt.Sprintf("read of unset register %s in %s", v.Name(), st.frame.fn))
	}
	return r
}

func (st *State) set(v ssa.Value, val Value) {
	st.frame.regs[st.frame.info.index[v]] = val
}

func (st *State) globalAddr(g *ssa.Global) uint64 {
	if a, ok := st.globals[g]; ok {
		return a
	}
	et := g.Type().(*types.Pointer).Elem()
	o := st.newObject(int(st.tc.of(et).size), "global:"+g.String())
	st.globals[g] = o.base()
	return o.base()
}

func (st *State) constValue(k *ssa.Const) Value {
	t := k.Type()
	ti := st.tc.of(t)
	if k.Value == nil {
		return st.zeroValue(t)
	}
	switch ti.kind {
	case kBool:
		return st.c.Bool(constant.BoolVal(k.Value))
	case kInt:
		if ti.signed {
			return st.c.Const(uint64(k.Int64()), ti.width)
		}
		return st.c.Const(k.Uint64(), ti.width)
	case kPtr:
		// uintptr-typed constants are kInt; this is only nil
		return st.c.Const(uint64(k.Int64()), 64)
	case kFloat:
		f := k.Float64()
		if ti.width == 32 {
			return st.c.Const(uint64(math.Float32bits(float32(f))), 32)
		}
		return st.c.Const(math.Float64bits(f), 64)
	case kString:
		return st.constString(constant.StringVal(k.Value))
	}
	st.end("UNSUPPORTED", "constant of type %s", t)
	return nil
}

// ---------------------------------------------------------------- calls

func (st *State) pushFrame(fn *ssa.Function, args []Value, site ssa.Value) *Frame {
	fi := st.w.P.info(fn)
	fr := &Frame{fn: fn, info: fi, regs: make([]Value, fi.nregs), caller: st.frame, result: site}
	copy(fr.regs, args)
	st.frame = fr
	st.depth++
	return fr
}

// run executes the current (just pushed) frame to completion (used by init).
func (st *State) run() Value {
	fr := st.frame
	return st.execFrame(fr)
}

// callFunction calls fn with args; handles intrinsics and bodiless functions.
func (st *State) callFunction(fn *ssa.Function, args []Value, site ssa.Value) Value {
	name := fn.String()
	if in, ok := st.w.intr[name]; ok {
		if v := in(st, fn, args); v != Value(fallThrough) {
			return v
		}
	}
	if fn.Pkg != nil && fn.Pkg.Pkg.Path() == "github.com/goccy/go-json/internal/verifrt" {
		if fn.Signature.Recv() != nil {
			if r, ok := st.verifrtCall(fn, args); ok {
				return r
			}
		} else {
			switch fn.Name() {
			case "And", "Or":
				acc := st.c.BAnd(tm(args[0]), tm(args[1]))
				if fn.Name() == "Or" {
					acc = st.c.BOr(tm(args[0]), tm(args[1]))
				}
				more := args[2].(Agg)
				n := st.concreteInt(tm(more[1]), "variadic length")
				for i := 0; i < n; i++ {
					b := st.c.BV2B(st.loadBytes(st.addrAdd(tm(more[0]), int64(i)), 1)[0])
					if fn.Name() == "Or" {
						acc = st.c.BOr(acc, b)
					} else {
						acc = st.c.BAnd(acc, b)
					}
				}
				return acc
			case "Implies":
				return st.c.BOr(st.c.BNot(tm(args[0])), tm(args[1]))
			}
		}
	}
	if len(fn.Blocks) == 0 {
		if st.lenient {
			return st.poisonValue(fn.Signature.Results(), "call to "+name)
		}
		st.end("UNSUPPORTED", "call to function without body: %s", name)
	}
	if opaquePkg(fn) {
		if st.lenient {
			return st.poisonValue(fn.Signature.Results(), "call to "+name)
		}
		st.end("UNSUPPORTED", "call into opaque package: %s", name)
	}
	if st.depth > maxDepth {
		st.end("UNWIND", "call depth exceeds %d", maxDepth)
	}
	saved := st.frame
	savedInstr := st.curInstr
	if !st.lenient {
		st.w.executed[fn] = true
	}
	st.pushFrame(fn, args, site)
	ret := st.execFrame(st.frame)
	st.frame = saved
	st.curInstr = savedInstr
	st.depth--
	return ret
}

var opaque = map[string]bool{"fmt": true, "reflect": true, "os": true, "time": true, "runtime": true,
	"internal/reflectlite": true, "log": true, "syscall": true, "internal/poll": true}

var allowOpaque = map[string]bool{"(reflect.StructTag).Get": true, "(reflect.StructTag).Lookup": true}

func opaquePkg(fn *ssa.Function) bool {
	if allowOpaque[fn.String()] {
		return false
	}
	p := fn.Pkg
	if p == nil {
		if fn.Synthetic != "" {
			// wrappers / bound methods / instantiations: look at the origin
			if o := fn.Origin(); o != nil && o.Pkg != nil {
				return opaque[o.Pkg.Pkg.Path()]
			}
			if obj := fn.Object(); obj != nil && obj.Pkg() != nil {
				return opaque[obj.Pkg().Path()]
			}
		}
		return false
	}
	return opaque[p.Pkg.Path()]
}

func (st *State) poisonValue(res *types.Tuple, why string) Value {
	mk := func(t types.Type) Value { return st.poisonOf(t, why) }
	switch res.Len() {
	case 0:
		return nil
	case 1:
		return mk(res.At(0).Type())
	}
	out := make(Agg, res.Len())
	for i := range out {
		out[i] = mk(res.At(i).Type())
	}
	return out
}

var poisonCnt int

func (st *State) poisonOf(t types.Type, why string) Value {
	ti := st.tc.of(t)
	fresh := func(w uint8) *smt.Term {
		poisonCnt++
		return st.c.Var(fmt.Sprintf("poison!%d", poisonCnt), w)
	}
	switch ti.kind {
	case kBool:
		return st.c.Eq(fresh(8), st.c.Const(1, 8))
	case kInt, kFloat, kPtr:
		return fresh(ti.width)
	case kString, kIface:
		return Agg{fresh(64), fresh(64)}
	case kSlice:
		return Agg{fresh(64), fresh(64), fresh(64)}
	case kStruct:
		out := make(Agg, len(ti.fields))
		for i, f := range ti.fields {
			out[i] = st.poisonOf(f.typ, why)
		}
		return out
	case kArray:
		out := make(Agg, ti.n)
		for i := range out {
			out[i] = st.poisonOf(ti.elem, why)
		}
		return out
	}
	return st.zeroValue(t)
}

// resolveCallee turns a function value (address term) into something callable.
func (st *State) resolveFuncValue(v Value) (fn *ssa.Function, bind []Value) {
	t := tm(v)
	if !t.IsConst() {
		if t.Op == smt.OpIte {
			if st.branch(t.A, "func-ite") {
				return st.resolveFuncValue(t.B)
			}
			return st.resolveFuncValue(t.C)
		}
		st.end("UNSUPPORTED", "call through symbolic function value %v", t)
	}
	a := t.V
	if a == 0 {
		st.end("PANIC", "call of nil function")
	}
	if a >= closBase && a < mapBase {
		i := (a - closBase) / 16
		if i < uint64(len(st.closures)) {
			c := st.closures[i]
			return c.fn.(*ssa.Function), c.bind
		}
	}
	if f := st.w.funcAt(a); f != nil {
		return f, nil
	}
	st.end("UNSUPPORTED", "call through unknown function address %#x", a)
	return nil, nil
}

func (st *State) doCall(cc *ssa.CallCommon, site ssa.Value) Value {
	args := make([]Value, 0, len(cc.Args)+1)
	if cc.IsInvoke() {
		iv := st.get(cc.Value).(Agg)
		dyn := st.dynType(iv, cc.Value.Type())
		if dyn == nil {
			st.end("PANIC", "method call %s on nil interface", cc.Method.Name())
		}
		fn := st.w.P.Prog.LookupMethod(dyn, cc.Method.Pkg(), cc.Method.Name())
		if fn == nil {
			st.end("UNSUPPORTED", "abstract method %s on %s", cc.Method.Name(), dyn)
		}
		args = append(args, st.unbox(iv, dyn))
		for _, a := range cc.Args {
			args = append(args, st.get(a))
		}
		return st.callFunction(fn, args, site)
	}
	for _, a := range cc.Args {
		args = append(args, st.get(a))
	}
	switch callee := cc.Value.(type) {
	case *ssa.Function:
		return st.callFunction(callee, args, site)
	case *ssa.Builtin:
		return st.callBuiltin(callee, cc, args)
	case *ssa.MakeClosure:
		fn := callee.Fn.(*ssa.Function)
		for _, b := range callee.Bindings {
			args = append(args, st.get(b))
		}
		return st.callFunction(fn, args, site)
	}
	fn, bind := st.resolveFuncValue(st.get(cc.Value))
	args = append(args, bind...)
	return st.callFunction(fn, args, site)
}

// callValue calls a function value (closure address) with args: used by
// intrinsics that call back (sync.Pool.New, Once.Do).
func (st *State) callValue(fv Value, args []Value) Value {
	fn, bind := st.resolveFuncValue(fv)
	all := append(append([]Value(nil), args...), bind...)
	return st.callFunction(fn, all, nil)
}

// ---------------------------------------------------------------- main loop

func (st *State) execFrame(fr *Frame) Value {
	fn := fr.fn
	block := fn.Blocks[0]
	fr.block = block
	if fr.visits == nil {
		fr.visits = map[int]int{}
	}
	for {
		fr.visits[block.Index]++
		if fr.visits[block.Index] > st.w.Opt.LoopCap && !st.lenient {
			st.end("UNWIND", "block %d of %s visited more than %d times", block.Index, fn, st.w.Opt.LoopCap)
		}
		var next *ssa.BasicBlock
	instrs:
		for _, in := range block.Instrs {
			st.steps++
			if st.lenient && st.steps > 20_000_000 {
				st.end("ABORT", "init step cap exceeded")
			}
			if st.steps > st.w.Opt.StepCap && !st.lenient {
				st.end("UNWIND", "step cap %d exceeded", st.w.Opt.StepCap)
			}
			st.curInstr = in
			if p := in.Pos(); p.IsValid() {
				fr.lastPos = p
			}
			switch in := in.(type) {
			case *ssa.Phi:
				// find predecessor index
				for i, p := range block.Preds {
					if p == fr.prev {
						st.set(in, st.get(in.Edges[i]))
						break
					}
				}
			case *ssa.If:
				if sw := fr.info.switches[block]; sw != nil && !st.lenient {
					if nb, pb, ok := st.execSwitch(sw); ok {
						next = nb
						block = pb // becomes fr.prev below
						break instrs
					}
				}
				if st.branch(tm(st.get(in.Cond)), "if") {
					next = block.Succs[0]
				} else {
					next = block.Succs[1]
				}
				break instrs
			case *ssa.Jump:
				next = block.Succs[0]
				break instrs
			case *ssa.Return:
				var ret Value
				switch len(in.Results) {
				case 0:
				case 1:
					ret = st.get(in.Results[0])
				default:
					a := make(Agg, len(in.Results))
					for i, r := range in.Results {
						a[i] = st.get(r)
					}
					ret = a
				}
				return ret
			case *ssa.Panic:
				st.end("PANIC", "explicit panic: %s", st.describeIface(st.get(in.X)))
			case *ssa.RunDefers:
				for i := len(fr.defers) - 1; i >= 0; i-- {
					d := fr.defers[i]
					fr.defers = fr.defers[:i]
					st.runDeferred(d)
				}
			case *ssa.Defer:
				st.recordDefer(fr, in)
			case *ssa.Go:
				st.end("UNSUPPORTED", "go statement")
			case *ssa.Send, *ssa.Select:
				st.end("UNSUPPORTED", "channel operation")
			case *ssa.Store:
				if st.lenient {
					st.lenientStore(in)
				} else {
					st.storeT(tm(st.get(in.Addr)), in.Val.Type(), st.get(in.Val))
				}
			case *ssa.MapUpdate:
				st.mapUpdate(st.get(in.Map), st.get(in.Key), st.get(in.Value), in.Map.Type())
			case *ssa.DebugRef:
			case ssa.Value:
				if st.lenient {
					st.set(in, st.lenientEval(in))
				} else {
					st.set(in, st.evalValue(in))
				}
			default:
				st.end("UNSUPPORTED", "instruction %T", in)
			}
		}
		if next == nil {
			st.end("UNSUPPORTED", "block without terminator in %s", fn)
		}
		fr.prev = block
		block = next
		fr.block = block
	}
}

func (st *State) describeIface(v Value) string {
	a, ok := v.(Agg)
	if !ok || len(a) != 2 {
		return "?"
	}
	tw := tm(a[0])
	if !tw.IsConst() {
		return "?"
	}
	if t := st.w.typeOfToken(tw.V); t != nil {
		s := t.String()
		if st.tc.of(t).kind == kString {
			func() {
				defer func() { recover() }()
				s += ": " + st.goString(st.loadT(tm(a[1]), t))
			}()
		}
		return s
	}
	return "?"
}

func (st *State) recordDefer(fr *Frame, in *ssa.Defer) {
	cc := &in.Call
	d := deferred{call: cc}
	if cc.IsInvoke() {
		iv := st.get(cc.Value).(Agg)
		dyn := st.dynType(iv, cc.Value.Type())
		if dyn == nil {
			st.end("PANIC", "deferred method call on nil interface")
		}
		fn := st.w.P.Prog.LookupMethod(dyn, cc.Method.Pkg(), cc.Method.Name())
		d.fnv = fn
		d.args = append(d.args, st.unbox(iv, dyn))
	} else {
		switch callee := cc.Value.(type) {
		case *ssa.Function:
			d.fnv = callee
		case *ssa.Builtin:
			d.fnv = callee
		default:
			d.fnv = st.get(cc.Value)
		}
	}
	for _, a := range cc.Args {
		d.args = append(d.args, st.get(a))
	}
	fr.defers = append(fr.defers, d)
}

func (st *State) runDeferred(d deferred) {
	switch f := d.fnv.(type) {
	case *ssa.Function:
		st.callFunction(f, d.args, nil)
	case *ssa.Builtin:
		st.callBuiltin(f, d.call, d.args)
	default:
		fn, bind := st.resolveFuncValue(f)
		st.callFunction(fn, append(append([]Value(nil), d.args...), bind...), nil)
	}
}

// ---------------------------------------------------------------- values

func (st *State) evalValue(in ssa.Value) Value {
	switch in := in.(type) {
	case *ssa.Alloc:
		et := in.Type().(*types.Pointer).Elem()
		name := in.Comment
		if name == "" {
			name = "alloc"
		}
		return st.alloc(int(st.tc.of(et).size), name+"@"+posStr(st.w.P.Fset, in.Pos()))
	case *ssa.BinOp:
		return st.binop(in.Op, st.get(in.X), st.get(in.Y), in.X.Type(), in.Y.Type())
	case *ssa.UnOp:
		return st.unop(in)
	case *ssa.Call:
		return st.doCall(&in.Call, in)
	case *ssa.ChangeType:
		return st.get(in.X)
	case *ssa.ChangeInterface:
		return st.changeInterface(st.get(in.X).(Agg), in.X.Type(), in.Type())
	case *ssa.Convert:
		return st.convert(st.get(in.X), in.X.Type(), in.Type())
	case *ssa.Extract:
		return st.get(in.Tuple).(Agg)[in.Index]
	case *ssa.Field:
		return st.get(in.X).(Agg)[in.Field]
	case *ssa.FieldAddr:
		pt := in.X.Type().Underlying().(*types.Pointer).Elem()
		ti := st.tc.of(pt)
		return st.addrAdd(tm(st.get(in.X)), ti.fields[in.Field].off)
	case *ssa.Index:
		return st.indexValue(in)
	case *ssa.IndexAddr:
		return st.indexAddr(in)
	case *ssa.Lookup:
		return st.lookup(in)
	case *ssa.MakeClosure:
		fn := in.Fn.(*ssa.Function)
		c := &Closure{fn: fn}
		for _, b := range in.Bindings {
			c.bind = append(c.bind, st.get(b))
		}
		st.closures = append(st.closures, c)
		return st.c.Const(closBase+uint64(len(st.closures)-1)*16, 64)
	case *ssa.MakeInterface:
		return st.makeInterface(st.get(in.X), in.X.Type(), in.Type())
	case *ssa.MakeMap:
		mt := in.Type().Underlying().(*types.Map)
		return st.newMap(mt.Key(), mt.Elem())
	case *ssa.MakeSlice:
		st_ := in.Type().Underlying().(*types.Slice)
		n := st.concreteInt(tm(st.get(in.Len)), "make len")
		cp := st.concreteInt(tm(st.get(in.Cap)), "make cap")
		if n < 0 || cp < n {
			st.end("PANIC", "makeslice: len out of range")
		}
		es := int(st.tc.of(st_.Elem()).size)
		p := st.alloc(cp*es, "makeslice@"+posStr(st.w.P.Fset, in.Pos()))
		return Agg{p, st.c.Const(uint64(n), 64), st.c.Const(uint64(cp), 64)}
	case *ssa.Next:
		return st.next(in)
	case *ssa.Range:
		return st.rangeInit(in)
	case *ssa.Phi:
		panic("phi handled in loop")
	case *ssa.Slice:
		return st.sliceOp(in)
	case *ssa.SliceToArrayPointer:
		a := st.get(in.X).(Agg)
		at := in.Type().Underlying().(*types.Pointer).Elem().Underlying().(*types.Array)
		st.require(st.c.Ule(st.c.Const(uint64(at.Len()), 64), tm(a[1])), "PANIC", "slice to array pointer: length too short")
		return a[0]
	case *ssa.TypeAssert:
		return st.typeAssert(in)
	case *ssa.MakeChan:
		st.end("UNSUPPORTED", "make chan")
	}
	st.end("UNSUPPORTED", "value instruction %T", in)
	return nil
}

// require: cond must hold; the side where it fails ends the path with status.
func (st *State) require(cond *smt.Term, status, msg string) {
	if cond.IsTrue() {
		return
	}
	if !st.branch(cond, "require") {
		st.end(status, "%s", msg)
	}
}

func (st *State) unop(in *ssa.UnOp) Value {
	x := st.get(in.X)
	switch in.Op {
	case token.MUL:
		addr := tm(x)
		et := in.X.Type().Underlying().(*types.Pointer).Elem()
		if addr.IsConst() {
			if why, ok := st.poisoned[addr.V]; ok && !st.lenient {
				st.end("UNSUPPORTED", "read of global whose initialiser could not be executed (%s)", why)
			}
		}
		return st.loadT(addr, et)
	case token.SUB:
		ti := st.tc.of(in.X.Type())
		if ti.kind == kFloat {
			return st.c.Xor(tm(x), st.c.Const(uint64(1)<<(ti.width-1), ti.width))
		}
		return st.c.Neg(tm(x))
	case token.NOT:
		return st.c.BNot(tm(x))
	case token.XOR:
		return st.c.Not(tm(x))
	}
	st.end("UNSUPPORTED", "unary op %s", in.Op)
	return nil
}

func (st *State) indexValue(in *ssa.Index) Value {
	x := st.get(in.X)
	idx := tm(st.get(in.Index))
	xt := st.tc.of(in.X.Type())
	if xt.kind == kString {
		a := x.(Agg)
		idx = st.c.Resize(idx, 64, st.tc.of(in.Index.Type()).signed)
		st.require(st.c.Ult(idx, tm(a[1])), "PANIC", "string index out of range")
		return st.loadBytes(st.c.Add(tm(a[0]), idx), 1)[0]
	}
	arr := x.(Agg)
	idx = st.c.Resize(idx, 64, st.tc.of(in.Index.Type()).signed)
	st.require(st.c.Ult(idx, st.c.Const(uint64(len(arr)), 64)), "PANIC", "array index out of range")
	if idx.IsConst() {
		return arr[idx.V]
	}
	// symbolic index into array value: ite chain (scalars only)
	var acc *smt.Term
	for i := len(arr) - 1; i >= 0; i-- {
		e := tm(arr[i])
		if acc == nil {
			acc = e
		} else {
			acc = st.c.Ite(st.c.Eq(idx, st.c.Const(uint64(i), 64)), e, acc)
		}
	}
	return acc
}

func (st *State) indexAddr(in *ssa.IndexAddr) Value {
	x := st.get(in.X)
	idx := st.c.Resize(tm(st.get(in.Index)), 64, st.tc.of(in.Index.Type()).signed)
	var base, ln *smt.Term
	var et types.Type
	switch u := in.X.Type().Underlying().(type) {
	case *types.Slice:
		a := x.(Agg)
		base, ln, et = tm(a[0]), tm(a[1]), u.Elem()
	case *types.Pointer:
		at := u.Elem().Underlying().(*types.Array)
		base, ln, et = tm(x), st.c.Const(uint64(at.Len()), 64), at.Elem()
	default:
		st.end("UNSUPPORTED", "IndexAddr on %s", in.X.Type())
	}
	st.require(st.c.Ult(idx, ln), "PANIC", "index out of range")
	es := st.tc.of(et).size
	return st.c.Add(base, st.c.Mul(idx, st.c.Const(uint64(es), 64)))
}

func (st *State) sliceOp(in *ssa.Slice) Value {
	x := st.get(in.X)
	var low, high, max *smt.Term
	ext := func(v ssa.Value) *smt.Term {
		if v == nil {
			return nil
		}
		return st.c.Resize(tm(st.get(v)), 64, st.tc.of(v.Type()).signed)
	}
	low, high, max = ext(in.Low), ext(in.High), ext(in.Max)
	if low == nil {
		low = st.zero64
	}
	switch u := in.X.Type().Underlying().(type) {
	case *types.Basic: // string
		a := x.(Agg)
		ptr, ln := tm(a[0]), tm(a[1])
		if high == nil {
			high = ln
		}
		st.require(st.c.Ule(high, ln), "PANIC", "slice bounds out of range (string high)")
		st.require(st.c.Ule(low, high), "PANIC", "slice bounds out of range (string low)")
		return Agg{st.c.Add(ptr, low), st.c.Sub(high, low)}
	case *types.Slice:
		a := x.(Agg)
		ptr, ln, cp := tm(a[0]), tm(a[1]), tm(a[2])
		if high == nil {
			high = ln
		}
		if max == nil {
			max = cp
		} else {
			st.require(st.c.Ule(max, cp), "PANIC", "slice bounds out of range (max)")
		}
		st.require(st.c.Ule(high, max), "PANIC", "slice bounds out of range (high)")
		st.require(st.c.Ule(low, high), "PANIC", "slice bounds out of range (low)")
		es := st.tc.of(u.Elem()).size
		np := st.c.Add(ptr, st.c.Mul(low, st.c.Const(uint64(es), 64)))
		return Agg{np, st.c.Sub(high, low), st.c.Sub(max, low)}
	case *types.Pointer:
		at := u.Elem().Underlying().(*types.Array)
		n := st.c.Const(uint64(at.Len()), 64)
		if high == nil {
			high = n
		}
		if max == nil {
			max = n
		} else {
			st.require(st.c.Ule(max, n), "PANIC", "slice bounds out of range (array max)")
		}
		st.require(st.c.Ule(high, max), "PANIC", "slice bounds out of range (array high)")
		st.require(st.c.Ule(low, high), "PANIC", "slice bounds out of range (array low)")
		es := st.tc.of(at.Elem()).size
		np := st.c.Add(tm(x), st.c.Mul(low, st.c.Const(uint64(es), 64)))
		return Agg{np, st.c.Sub(high, low), st.c.Sub(max, low)}
	}
	st.end("UNSUPPORTED", "slice of %s", in.X.Type())
	return nil
}

// ---------------------------------------------------------------- interfaces

func (st *State) ptrWord(v Value, t types.Type) *smt.Term {
	for {
		if a, ok := v.(Agg); ok {
			v = a[0]
			continue
		}
		return tm(v)
	}
}

func (st *State) fromPtrWord(w *smt.Term, t types.Type) Value {
	switch u := t.Underlying().(type) {
	case *types.Struct:
		return Agg{st.fromPtrWord(w, u.Field(0).Type())}
	case *types.Array:
		return Agg{st.fromPtrWord(w, u.Elem())}
	}
	return w
}

func (st *State) makeInterface(v Value, conc, iface types.Type) Value {
	var tw uint64
	if isEmptyIface(iface) {
		tw = st.w.tokenFor(conc)
	} else {
		tw = st.w.itabFor(iface, conc)
	}
	var data *smt.Term
	if pointerShaped(conc) {
		data = st.ptrWord(v, conc)
	} else {
		data = st.alloc(int(st.tc.of(conc).size), "box:"+conc.String())
		st.storeT(data, conc, v)
	}
	return Agg{st.c.Const(tw, 64), data}
}

// dynType returns the dynamic type of an interface value (nil for a nil
// interface). A symbolic type word is decided by branching.
func (st *State) dynType(iv Agg, static types.Type) types.Type {
	tw := tm(iv[0])
	for !tw.IsConst() {
		if tw.Op == smt.OpIte {
			if st.branch(tw.A, "iface-ite") {
				tw = tw.B
			} else {
				tw = tw.C
			}
			continue
		}
		// e.g. an interface loaded from a slice at a symbolic index: one fork per feasible type
		tw = st.concretize(tw, "interface type word")
	}
	if tw.V == 0 {
		return nil
	}
	if t := st.w.typeOfToken(tw.V); t != nil {
		return t
	}
	if k, ok := st.w.itabAt(tw.V); ok {
		return st.w.typeOfToken(k[1])
	}
	st.end("UNSUPPORTED", "interface type word %#x is neither a type token nor an itab", tw.V)
	return nil
}

func (st *State) unbox(iv Agg, conc types.Type) Value {
	if pointerShaped(conc) {
		return st.fromPtrWord(tm(iv[1]), conc)
	}
	return st.loadT(tm(iv[1]), conc)
}

func (st *State) changeInterface(iv Agg, from, to types.Type) Value {
	dyn := st.dynType(iv, from)
	if dyn == nil {
		return Agg{st.zero64, st.zero64}
	}
	if isEmptyIface(to) {
		return Agg{st.c.Const(st.w.tokenFor(dyn), 64), iv[1]}
	}
	return Agg{st.c.Const(st.w.itabFor(to, dyn), 64), iv[1]}
}

func (st *State) typeAssert(in *ssa.TypeAssert) Value {
	iv := st.get(in.X).(Agg)
	dyn := st.dynType(iv, in.X.Type())
	at := in.AssertedType
	ok := false
	var res Value
	if _, isIface := at.Underlying().(*types.Interface); isIface {
		if dyn != nil && types.Implements(dyn, at.Underlying().(*types.Interface)) {
			ok = true
			res = st.changeInterface(iv, in.X.Type(), at)
		}
	} else if dyn != nil && types.Identical(dyn, at) {
		ok = true
		res = st.unbox(iv, at)
	}
	if in.CommaOk {
		if !ok {
			res = st.zeroValue(at)
		}
		return Agg{res, st.c.Bool(ok)}
	}
	if !ok {
		ds := "nil"
		if dyn != nil {
			ds = dyn.String()
		}
		st.end("PANIC", "interface conversion: %s is not %s", ds, at)
	}
	return res
}

// ---------------------------------------------------------------- maps

func (st *State) newMap(k, v types.Type) Value {
	m := &MapObj{ktyp: k, vtyp: v}
	st.maps = append(st.maps, m)
	return st.c.Const(mapBase+uint64(len(st.maps)-1)*16, 64)
}

func (st *State) mapObj(v Value, write bool) *MapObj {
	t := tm(v)
	if !t.IsConst() {
		st.end("UNSUPPORTED", "symbolic map pointer")
	}
	if t.V == 0 {
		if write {
			st.end("PANIC", "assignment to entry in nil map")
		}
		return nil
	}
	i := (t.V - mapBase) / 16
	if t.V < mapBase || i >= uint64(len(st.maps)) {
		st.end("UNSUPPORTED", "bad map pointer %#x", t.V)
	}
	m := st.maps[i]
	if write && m.frozen {
		n := &MapObj{ktyp: m.ktyp, vtyp: m.vtyp}
		n.keys = append([]Value(nil), m.keys...)
		n.vals = append([]Value(nil), m.vals...)
		st.maps[i] = n
		m = n
	}
	return m
}

// valueEq builds the equality of two values of Go type t.
func (st *State) valueEq(a, b Value, t types.Type) *smt.Term {
	ti := st.tc.of(t)
	switch ti.kind {
	case kBool, kInt, kPtr:
		return st.c.Eq(tm(a), tm(b))
	case kFloat:
		return st.c.FP(smt.OpFEq, 0, tm(a), tm(b))
	case kString:
		return st.strEq(a.(Agg), b.(Agg))
	case kIface:
		return st.ifaceEq(a.(Agg), b.(Agg), t)
	case kStruct:
		acc := st.c.True
		for i, f := range ti.fields {
			acc = st.c.BAnd(acc, st.valueEq(a.(Agg)[i], b.(Agg)[i], f.typ))
		}
		return acc
	case kArray:
		acc := st.c.True
		for i := range a.(Agg) {
			acc = st.c.BAnd(acc, st.valueEq(a.(Agg)[i], b.(Agg)[i], ti.elem))
		}
		return acc
	}
	st.end("UNSUPPORTED", "equality on type %s", t)
	return nil
}

func (st *State) ifaceEq(a, b Agg, static types.Type) *smt.Term {
	ta, tb := tm(a[0]), tm(b[0])
	if ta.IsConst() && ta.V == 0 {
		return st.c.Eq(tb, st.zero64)
	}
	if tb.IsConst() && tb.V == 0 {
		return st.c.Eq(ta, st.zero64)
	}
	da, db := st.dynType(a, static), st.dynType(b, static)
	if da == nil || db == nil {
		return st.c.Bool(da == nil && db == nil)
	}
	if !types.Identical(da, db) {
		return st.c.False
	}
	return st.valueEq(st.unbox(a, da), st.unbox(b, db), da)
}

func (st *State) strEq(a, b Agg) *smt.Term {
	la, lb := tm(a[1]), tm(b[1])
	if !la.IsConst() || !lb.IsConst() {
		st.end("UNSUPPORTED", "string comparison with symbolic length")
	}
	if la.V != lb.V {
		return st.c.False
	}
	if la.V == 0 || a[0] == b[0] {
		return st.c.True
	}
	ba := st.loadBytes(tm(a[0]), int(la.V))
	bb := st.loadBytes(tm(b[0]), int(lb.V))
	acc := st.c.True
	for i := range ba {
		acc = st.c.BAnd(acc, st.c.Eq(ba[i], bb[i]))
	}
	return acc
}

func (st *State) mapUpdate(mv, k, v Value, mt types.Type) {
	m := st.mapObj(mv, true)
	for i, ek := range m.keys {
		eq := st.valueEq(ek, k, m.ktyp)
		if eq.IsTrue() {
			m.vals[i] = v
			return
		}
		if !eq.IsFalse() {
			if st.branch(eq, "mapkey") {
				m.vals[i] = v
				return
			}
		}
	}
	m.keys = append(m.keys, k)
	m.vals = append(m.vals, v)
}

func (st *State) mapVal(m *MapObj, i int) Value {
	if sr, ok := m.vals[i].(slotRef); ok {
		return st.loadT(sr.addr, m.vtyp)
	}
	return m.vals[i]
}

func (st *State) mapLookup(mv, k Value) (val Value, ok *smt.Term) {
	m := st.mapObj(mv, false)
	if m == nil {
		return nil, st.c.False
	}
	for i, ek := range m.keys {
		eq := st.valueEq(ek, k, m.ktyp)
		if eq.IsTrue() {
			return st.mapVal(m, i), st.c.True
		}
		if !eq.IsFalse() {
			if st.branch(eq, "mapkey") {
				return st.mapVal(m, i), st.c.True
			}
		}
	}
	return nil, st.c.False
}

func (st *State) lookup(in *ssa.Lookup) Value {
	x := st.get(in.X)
	if mt, ok := in.X.Type().Underlying().(*types.Map); ok {
		val, found := st.mapLookup(x, st.get(in.Index))
		if val == nil {
			val = st.zeroValue(mt.Elem())
		}
		if in.CommaOk {
			return Agg{val, found}
		}
		return val
	}
	// string index
	a := x.(Agg)
	idx := st.c.Resize(tm(st.get(in.Index)), 64, st.tc.of(in.Index.Type()).signed)
	st.require(st.c.Ult(idx, tm(a[1])), "PANIC", "string index out of range")
	return st.loadBytes(st.c.Add(tm(a[0]), idx), 1)[0]
}

// fallThrough: returned by an intrinsic that declines (the real body runs).
type fallThroughT struct{}

var fallThrough = &fallThroughT{}

type rangeIter struct {
	isMap bool
	m     *MapObj
	str   []byte
	strT  []*smt.Term // string with symbolic bytes (str is nil then)
	pos   int
	keys  []Value
	vals  []Value
}

func (st *State) rangeInit(in *ssa.Range) Value {
	x := st.get(in.X)
	if _, ok := in.X.Type().Underlying().(*types.Map); ok {
		m := st.mapObj(x, false)
		it := &rangeIter{isMap: true}
		if m != nil {
			it.keys = append([]Value(nil), m.keys...)
			for i := range m.vals {
				it.vals = append(it.vals, st.mapVal(m, i))
			}
		}
		return it
	}
	a := x.(Agg)
	bs := st.seqBytes(tm(a[0]), tm(a[1]))
	for _, b := range bs {
		if !b.IsConst() {
			return &rangeIter{strT: bs}
		}
	}
	s := st.goString(x)
	return &rangeIter{str: []byte(s)}
}

// nextSymbolicRune: one step of `for i, r := range s` over a string with
// symbolic bytes: utf8.DecodeRuneInString decided by branching on the
// byte-class conditions, the rune is an arithmetic term.
func (st *State) nextSymbolicRune(it *rangeIter) Value {
	c := st.c
	if it.pos >= len(it.strT) {
		return Agg{c.False, st.zero64, c.Const(0, 32)}
	}
	i := it.pos
	k8 := func(v uint64) *smt.Term { return c.Const(v, 8) }
	in := func(b *smt.Term, lo, hi uint64) *smt.Term { return c.BAnd(c.Ule(k8(lo), b), c.Ule(b, k8(hi))) }
	z := func(b *smt.Term, mask uint64) *smt.Term { return c.Resize(c.And(b, k8(mask)), 32, false) }
	sh := func(t *smt.Term, n uint64) *smt.Term { return c.Shl(t, c.Const(n, 32)) }
	ret := func(r *smt.Term, size int) Value {
		it.pos += size
		return Agg{c.True, c.Const(uint64(i), 64), r}
	}
	b0 := it.strT[i]
	if st.branch(c.Ult(b0, k8(0x80)), "rune-ascii") {
		return ret(c.Resize(b0, 32, false), 1)
	}
	rest := len(it.strT) - i
	if rest >= 2 {
		b1 := it.strT[i+1]
		if st.branch(c.BAnd(in(b0, 0xc2, 0xdf), in(b1, 0x80, 0xbf)), "rune-2") {
			return ret(c.Or(sh(z(b0, 0x1f), 6), z(b1, 0x3f)), 2)
		}
		if rest >= 3 {
			b2 := it.strT[i+2]
			lead3 := c.BOr(c.BAnd(c.Eq(b0, k8(0xe0)), in(b1, 0xa0, 0xbf)),
				c.BOr(c.BAnd(c.BOr(in(b0, 0xe1, 0xec), in(b0, 0xee, 0xef)), in(b1, 0x80, 0xbf)),
					c.BAnd(c.Eq(b0, k8(0xed)), in(b1, 0x80, 0x9f))))
			if st.branch(c.BAnd(lead3, in(b2, 0x80, 0xbf)), "rune-3") {
				return ret(c.Or(c.Or(sh(z(b0, 0x0f), 12), sh(z(b1, 0x3f), 6)), z(b2, 0x3f)), 3)
			}
			if rest >= 4 {
				b3 := it.strT[i+3]
				lead4 := c.BOr(c.BAnd(c.Eq(b0, k8(0xf0)), in(b1, 0x90, 0xbf)),
					c.BOr(c.BAnd(in(b0, 0xf1, 0xf3), in(b1, 0x80, 0xbf)),
						c.BAnd(c.Eq(b0, k8(0xf4)), in(b1, 0x80, 0x8f))))
				if st.branch(c.BAnd(lead4, c.BAnd(in(b2, 0x80, 0xbf), in(b3, 0x80, 0xbf))), "rune-4") {
					r := c.Or(c.Or(sh(z(b0, 0x07), 18), sh(z(b1, 0x3f), 12)), c.Or(sh(z(b2, 0x3f), 6), z(b3, 0x3f)))
					return ret(r, 4)
				}
			}
		}
	}
	return ret(c.Const(0xfffd, 32), 1)
}

func (st *State) next(in *ssa.Next) Value {
	it := st.get(in.Iter).(*rangeIter)
	tt := in.Type().(*types.Tuple)
	if it.isMap {
		if it.pos >= len(it.keys) {
			zv := func(t types.Type) Value {
				if b, ok := t.(*types.Basic); ok && b.Kind() == types.Invalid {
					return st.zero64
				}
				return st.zeroValue(t)
			}
			return Agg{st.c.False, zv(tt.At(1).Type()), zv(tt.At(2).Type())}
		}
		k, v := it.keys[it.pos], it.vals[it.pos]
		it.pos++
		return Agg{st.c.True, k, v}
	}
	if it.strT != nil {
		return st.nextSymbolicRune(it)
	}
	if it.pos >= len(it.str) {
		return Agg{st.c.False, st.zero64, st.c.Const(0, 32)}
	}
	r, size := decodeRune(it.str[it.pos:])
	i := it.pos
	it.pos += size
	return Agg{st.c.True, st.c.Const(uint64(i), 64), st.c.Const(uint64(r), 32)}
}

func decodeRune(b []byte) (rune, int) {
	for i, r := range string(b) {
		_ = i
		n := len(string(r))
		if r == 0xFFFD && !(len(b) >= 3 && b[0] == 0xef && b[1] == 0xbf && b[2] == 0xbd) {
			return r, 1
		}
		return r, n
	}
	return 0, 0
}

// lenientEval (init mode): an instruction that cannot be executed yields a
// poison value instead of ending the run.
func (st *State) lenientEval(in ssa.Value) (v Value) {
	saved, savedInstr, depth := st.frame, st.curInstr, st.depth
	defer func() {
		if r := recover(); r != nil {
			pe, ok := r.(*pathEnd)
			if !ok || (pe.status != "UNSUPPORTED" && pe.status != "PANIC" && pe.status != "OOB") {
				panic(r)
			}
			if os.Getenv("GOSYM_DEBUG_INIT") != "" {
				fmt.Fprintf(os.Stderr, "init: poison %s: %s at %s\n", in.Name(), pe.msg, pe.pos)
			}
			st.frame, st.curInstr, st.depth = saved, savedInstr, depth
			if tt, ok := in.Type().(*types.Tuple); ok {
				v = st.poisonValue(tt, pe.msg)
			} else {
				v = st.poisonOf(in.Type(), pe.msg)
			}
		}
	}()
	return st.evalValue(in)
}

func hasSymbolic(v Value) bool {
	switch v := v.(type) {
	case *smt.Term:
		return !v.IsConst()
	case Agg:
		for _, e := range v {
			if hasSymbolic(e) {
				return true
			}
		}
	}
	return false
}

func (st *State) lenientStore(in *ssa.Store) {
	saved, savedInstr, depth := st.frame, st.curInstr, st.depth
	defer func() {
		if r := recover(); r != nil {
			pe, ok := r.(*pathEnd)
			if !ok {
				fmt.Fprintf(os.Stderr, "engine panic at %s: %v (store %s of type %s)\n", st.curPos(), r, in, in.Val.Type())
			}
			if !ok || (pe.status != "UNSUPPORTED" && pe.status != "PANIC" && pe.status != "OOB") {
				panic(r)
			}
			st.frame, st.curInstr, st.depth = saved, savedInstr, depth
		}
	}()
	addr := tm(st.get(in.Addr))
	val := st.get(in.Val)
	if hasSymbolic(val) && addr.IsConst() {
		st.poisoned[addr.V] = "initialiser not executable"
	}
	st.storeT(addr, in.Val.Type(), val)
}

// execSwitch decides a Go switch over constants as one decision per distinct
// target block (a disjunction of the case constants) instead of one per
// constant. Returns the target and the predecessor block to report to phis.
func (st *State) execSwitch(sw *ssautil.Switch) (next, pred *ssa.BasicBlock, ok bool) {
	xv, isTerm := st.get(sw.X).(*smt.Term)
	if !isTerm || xv.W == 0 {
		return nil, nil, false
	}
	type group struct {
		body *ssa.BasicBlock
		pred *ssa.BasicBlock
		cond *smt.Term
	}
	var groups []*group
	byKey := map[string]*group{}
	// phiKey: the values the body's phis receive when entered from pred; two
	// cases may share a decision only if they agree on the target AND on these
	phiKey := func(body, pred *ssa.BasicBlock) (string, bool) {
		idx := -1
		for i, p := range body.Preds {
			if p == pred {
				idx = i
				break
			}
		}
		key := fmt.Sprintf("%p", body)
		for _, in := range body.Instrs {
			phi, ok := in.(*ssa.Phi)
			if !ok {
				break
			}
			if idx < 0 {
				return "", false
			}
			key += fmt.Sprintf("|%p", phi.Edges[idx])
		}
		return key, true
	}
	for _, cc := range sw.ConstCases {
		kv, isC := st.constValue(cc.Value).(*smt.Term)
		if !isC || kv.W != xv.W {
			return nil, nil, false
		}
		key, ok := phiKey(cc.Body, cc.Block)
		if !ok {
			return nil, nil, false
		}
		eq := st.c.Eq(xv, kv)
		g := byKey[key]
		if g == nil {
			g = &group{body: cc.Body, pred: cc.Block, cond: eq}
			byKey[key] = g
			groups = append(groups, g)
		} else {
			g.cond = st.c.BOr(g.cond, eq)
		}
	}
	for _, g := range groups {
		if st.branch(g.cond, "switch") {
			return g.body, g.pred, true
		}
	}
	last := sw.ConstCases[len(sw.ConstCases)-1].Block
	return sw.Default, last, true
}
