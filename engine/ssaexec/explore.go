package ssaexec

import (
	"fmt"
	"runtime/debug"
	"math/bits"
	"os"
	"sort"
	"strings"
	"time"

	"golang.org/x/tools/go/ssa"

	"gosym/smt"
)

// ---------------------------------------------------------------- byte domains

func fullDomain() *[4]uint64 {
	return &[4]uint64{^uint64(0), ^uint64(0), ^uint64(0), ^uint64(0)}
}

func domCount(d *[4]uint64) int {
	return bits.OnesCount64(d[0]) + bits.OnesCount64(d[1]) + bits.OnesCount64(d[2]) + bits.OnesCount64(d[3])
}

// univariate reports whether cond depends on exactly one 8-bit variable and
// returns the sets of values (within the current domain) making it true/false.
func (st *State) univariate(cond *smt.Term) (v *smt.Term, tmask, fmask [4]uint64, ok bool) {
	if st.w.Opt.NoFast {
		return nil, tmask, fmask, false
	}
	ids, small := cond.Supp()
	if !small || len(ids) != 1 {
		return nil, tmask, fmask, false
	}
	v = st.c.TermByID(ids[0])
	if v.W != 8 {
		return nil, tmask, fmask, false
	}
	dom := st.domains[v.ID]
	var cur uint64
	env := func(*smt.Term) uint64 { return cur }
	for x := 0; x < 256; x++ {
		if dom != nil && dom[x>>6]&(1<<(uint(x)&63)) == 0 {
			continue
		}
		cur = uint64(x)
		r, evalOK := st.c.Eval(cond, env)
		if !evalOK {
			return nil, tmask, fmask, false
		}
		if r != 0 {
			tmask[x>>6] |= 1 << (uint(x) & 63)
		} else {
			fmask[x>>6] |= 1 << (uint(x) & 63)
		}
	}
	return v, tmask, fmask, true
}

// domainTerm renders "v ∈ mask" compactly as a disjunction of intervals.
func (st *State) domainTerm(v *smt.Term, m [4]uint64) *smt.Term {
	c := st.c
	acc := c.False
	in := func(x int) bool { return x < 256 && m[x>>6]&(1<<(uint(x)&63)) != 0 }
	for x := 0; x < 256; {
		if !in(x) {
			x++
			continue
		}
		y := x
		for in(y + 1) {
			y++
		}
		var iv *smt.Term
		switch {
		case x == y:
			iv = c.Eq(v, c.Const(uint64(x), 8))
		case x == 0 && y == 255:
			iv = c.True
		case x == 0:
			iv = c.Ule(v, c.Const(uint64(y), 8))
		case y == 255:
			iv = c.Ule(c.Const(uint64(x), 8), v)
		default:
			iv = c.BAnd(c.Ule(c.Const(uint64(x), 8), v), c.Ule(v, c.Const(uint64(y), 8)))
		}
		acc = c.BOr(acc, iv)
		x = y + 1
	}
	return acc
}

func nonEmpty(m [4]uint64) bool { return m[0]|m[1]|m[2]|m[3] != 0 }

// feasible asks whether pathcond ∧ cond is satisfiable. unknown counts as
// feasible (never prunes).
func (st *State) feasible(cond *smt.Term) bool {
	if cond.IsTrue() {
		return true
	}
	if cond.IsFalse() {
		return false
	}
	st.w.Stats.SolverChecks++
	if traceDec && st.w.Stats.SolverChecks < 4 {
		fmt.Fprintf(os.Stderr, "FEASIBLE-CALL %v\n%s\n", cond, debug.Stack())
	}
	if st.w.Opt.IntFirst {
		if r, _ := st.intQuery(false, cond); r != smt.Unknown {
			return r != smt.Unsat
		}
	}
	r := st.w.Solver.Check(cond)
	if r == smt.Unknown && !st.w.Opt.IntFirst {
		r, _ = st.intQuery(false, cond)
	}
	if r == smt.Unknown {
		st.w.Stats.Unknowns++
	}
	return r != smt.Unsat
}

var intDumpN int
var traceDec = os.Getenv("GOSYM_TRACE") != ""
var _ = os.Stderr

// intQuery decides pathcond ∧ extra on the integer translation (one-shot z3,
// then cvc5). Unknown when the translation is not applicable.
func (st *State) intQuery(wantModel bool, extra ...*smt.Term) (smt.Result, map[string]uint64) {
	all := append(st.w.Solver.AllAsserts(), extra...)
	script, ok, why := st.c.IntScript(all)
	if dir := os.Getenv("GOSYM_DUMPINT"); dir != "" {
		intDumpN++
		os.WriteFile(fmt.Sprintf("%s/int%d.smt2", dir, intDumpN), []byte("; ok="+fmt.Sprint(ok)+" "+why+"\n"+script), 0o644)
	}
	if !ok {
		return smt.Unknown, nil
	}
	st.w.Stats.IntQueries++
	to := st.w.Opt.IntTimeoutMs
	if to == 0 {
		to = 120000
	}
	t0 := time.Now()
	r, m, _ := smt.Race([]string{"cvc5", smt.DefaultZ3()}, script, time.Duration(to)*time.Millisecond)
	st.w.Stats.IntTimeNs += int64(time.Since(t0))
	if r != smt.Unknown {
		st.w.Stats.IntDecided++
		return r, m
	}
	return smt.Unknown, nil
}

// replaying: are we still inside the forced prefix?
func (st *State) replaying() bool { return len(st.decs) < len(st.plan) }

func (st *State) refine(v *smt.Term, m [4]uint64) {
	d := m
	st.domains[v.ID] = &d
}

// takeDecision records a Decision with the chosen alternative and the
// condition that holds on it, maintaining the solver stack.
func (st *State) takeDecision(d Decision) {
	idx := len(st.decs)
	st.decs = append(st.decs, d)
	cond := d.conds[d.chosen]
	if st.w.Solver != nil && idx >= st.synced {
		st.w.Solver.Push()
		if cond != nil {
			st.w.Solver.Assert(cond)
		}
	}
	if cond != nil {
		st.pathCond = append(st.pathCond, cond)
	}
}

// branch decides a Bool term; returns the side taken on this path.
func (st *State) branch(cond *smt.Term, label string) bool {
	if cond.IsTrue() {
		return true
	}
	if cond.IsFalse() {
		return false
	}
	if st.w.Opt.IsConcrete || st.lenient {
		if st.lenient {
			// init code branching on a poisoned value: take the false side
			return false
		}
		st.end("ABORT", "symbolic branch in concrete mode: %v", cond)
	}
	if !st.w.Opt.NoFast {
		if val, ok := st.intervalDecide(cond, 0); ok {
			st.w.Stats.IntervalDecided++
			if st.w.Opt.CrossCheck && st.live() && st.sampleCross() {
				st.w.Stats.CrossChecked++
				want := cond
				if val {
					want = st.c.BNot(cond)
				}
				if r := st.w.Solver.Check(want); r == smt.Sat {
					st.w.Stats.CrossMismatch++
					fmt.Fprintf(os.Stderr, "CROSSCHECK MISMATCH (interval) on %v: interval=%v\n", cond, val)
				}
			}
			return val
		}
	}
	if !st.w.Opt.NoFast {
		if ids, small := cond.Supp(); !small || len(ids) > 1 {
			// replace single-variable subterms that are constant over the variable's
			// current domain (table lookups after the lookup key has been classified)
			for iter := 0; iter < 6; iter++ {
				nc := st.simplifyUnderDomains(cond, map[uint32]*smt.Term{}, 0)
				if nc != cond {
					st.w.Stats.DomainSimplified++
					cond = nc
					if cond.IsTrue() {
						return true
					}
					if cond.IsFalse() {
						return false
					}
				}
				if ids, small := cond.Supp(); small && len(ids) <= 1 {
					break
				}
				// classify: fork on the value of a single-variable subterm that takes
				// few distinct values (each fork is a cheap byte-domain decision)
				u, vals := st.findSplittable(cond, map[uint32]bool{}, 0)
				if u == nil {
					break
				}
				for _, val := range vals[:len(vals)-1] {
					var eq *smt.Term
					if u.W == 0 {
						eq = u
						if val == 0 {
							eq = st.c.BNot(u)
						}
					} else {
						eq = st.c.Eq(u, st.c.Const(val, u.W))
					}
					if st.branch(eq, "classify") {
						break
					}
				}
			}
		}
	}
	ncond := st.c.BNot(cond)
	v, tmask, fmask, uni := st.univariate(cond)
	if st.replaying() {
		d := st.plan[len(st.decs)]
		if d.n != 2 {
			panic("replay mismatch: expected 2-way Decision, plan has " + fmt.Sprint(d.n) + " at " + st.curPos())
		}
		d.conds = []*smt.Term{cond, ncond}
		if uni {
			d.conds = []*smt.Term{st.domainTerm(v, tmask), st.domainTerm(v, fmask)}
		} else {
			st.noteMultiVar(cond)
		}
		st.takeDecision(d)
		if uni {
			if d.chosen == 0 {
				st.refine(v, tmask)
			} else {
				st.refine(v, fmask)
			}
		}
		return d.chosen == 0
	}
	st.w.Stats.Decisions++
	if traceDec {
		fmt.Fprintf(os.Stderr, "DEC #%d %s uni=%v at %s: %v\n", len(st.decs), label, uni, st.curPos(), cond)
	}
	var ft, ff bool
	if uni {
		st.w.Stats.FastDecided++
		ft, ff = nonEmpty(tmask), nonEmpty(fmask)
		if ft && ff && (st.multiVar || st.mvVars[v.ID]) {
			// the byte's own domain allows both sides, but constraints relating it to
			// other variables may not: confirm with the solver
			ft = st.feasible(cond)
			if !ft {
				ff = true
			} else {
				ff = st.feasible(ncond)
			}
		}
		if st.w.Opt.CrossCheck && st.sampleCross() {
			st.w.Stats.CrossChecked++
			zt, zf := st.w.Solver.Check(cond), st.w.Solver.Check(ncond)
			if (zt == smt.Sat) != ft && zt != smt.Unknown || (zf == smt.Sat) != ff && zf != smt.Unknown {
				st.w.Stats.CrossMismatch++
				fmt.Fprintf(os.Stderr, "CROSSCHECK MISMATCH on %v: fast=(%v,%v) solver=(%v,%v)\n", cond, ft, ff, zt, zf)
			}
		}
	} else {
		ft = st.feasible(cond)
		if !ft {
			ff = true // the path condition itself is satisfiable
		} else {
			ff = st.feasible(ncond)
		}
		st.noteMultiVar(cond)
	}
	if !ft && !ff {
		st.end("INFEASIBLE", "both sides of a branch infeasible")
	}
	if traceDec && ft && ff {
		fmt.Fprintf(os.Stderr, "FORK %s\n", st.curPos())
	}
	d := Decision{n: 2, feas: []bool{ft, ff}, conds: []*smt.Term{cond, ncond}, label: label}
	if uni {
		// the solver sees the refined domain, not the (possibly table-shaped) condition
		d.conds = []*smt.Term{st.domainTerm(v, tmask), st.domainTerm(v, fmask)}
	}
	if ft {
		d.chosen = 0
	} else {
		d.chosen = 1
	}
	st.takeDecision(d)
	if uni {
		if d.chosen == 0 {
			st.refine(v, tmask)
		} else {
			st.refine(v, fmask)
		}
	}
	return d.chosen == 0
}

// choice: an n-way enumerated Decision (all alternatives feasible).
func (st *State) choice(n int, label string) int {
	if n <= 1 {
		return 0
	}
	if st.w.Opt.IsConcrete {
		panic("choice in concrete mode must be served by the vector")
	}
	if st.replaying() {
		d := st.plan[len(st.decs)]
		if d.n != n {
			panic(fmt.Sprintf("replay mismatch: choice of %d vs plan %d", n, d.n))
		}
		d.conds = make([]*smt.Term, n)
		st.takeDecision(d)
		return d.chosen
	}
	st.w.Stats.Decisions++
	d := Decision{n: n, feas: make([]bool, n), conds: make([]*smt.Term, n), label: label}
	for i := range d.feas {
		d.feas[i] = true
	}
	st.takeDecision(d)
	return 0
}

// assume adds cond to the path condition; ends the path when it cannot hold.
func (st *State) assume(cond *smt.Term) {
	if cond.IsTrue() {
		return
	}
	if cond.IsFalse() {
		st.end("ASSUME", "assumption false")
	}
	if st.w.Opt.IsConcrete {
		st.end("ABORT", "symbolic assume in concrete mode")
	}
	v, tmask, _, uni := st.univariate(cond)
	if uni {
		if !nonEmpty(tmask) {
			st.end("ASSUME", "assumption unsatisfiable")
		}
		st.refine(v, tmask)
		st.assertAtLevel(st.domainTerm(v, tmask))
		return
	}
	if st.live() {
		if !st.feasible(cond) {
			st.end("ASSUME", "assumption unsatisfiable")
		}
	}
	st.noteMultiVar(cond)
	st.assertAtLevel(cond)
}

// noteMultiVar records which variables are related to others by a constraint
// of the path condition: only their byte domains may over-approximate.
func (st *State) noteMultiVar(cond *smt.Term) {
	ids, small := cond.Supp()
	if !small {
		st.multiVar = true
		return
	}
	if st.mvVars == nil {
		st.mvVars = map[uint32]bool{}
	}
	for _, id := range ids {
		st.mvVars[id] = true
	}
}

// live: is the solver stack positioned at the current point of the path?
// After the driver pops to level `synced`, everything asserted while
// len(decs) <= synced on the previous path (identical up to that Decision) is
// still on the stack: such assertions are skipped and no checks are needed.
func (st *State) live() bool { return !(st.hasPrev && len(st.decs) <= st.synced) }

func (st *State) assertAtLevel(cond *smt.Term) {
	st.pathCond = append(st.pathCond, cond)
	if st.w.Solver == nil || !st.live() {
		return
	}
	st.w.Solver.Assert(cond)
}

// ---------------------------------------------------------------- nondet

func (st *State) freshName(name string) string {
	k := st.nameCnt[name]
	st.nameCnt[name] = k + 1
	return fmt.Sprintf("%s#%d", name, k)
}

func (st *State) nondet(name string, w uint8, kind string) *smt.Term {
	if st.w.Opt.IsConcrete {
		var v uint64
		if st.concPos < len(st.w.Opt.Concrete) {
			v = st.w.Opt.Concrete[st.concPos]
		}
		st.concPos++
		st.events = append(st.events, event{name: name, kind: kind})
		if w == 0 {
			return st.c.Bool(v&1 == 1)
		}
		return st.c.Const(v, w)
	}
	n := st.freshName(name)
	ww := w
	if w == 0 {
		ww = 8
	}
	v := st.c.Var(n, ww)
	st.events = append(st.events, event{name: n, v: v, kind: kind})
	if w == 0 {
		// booleans are bytes constrained to 0/1
		st.refine(v, [4]uint64{3, 0, 0, 0})
		st.assertAtLevel(st.c.Ule(v, st.c.Const(1, 8)))
		return st.c.Eq(v, st.c.Const(1, 8))
	}
	return v
}

func (st *State) nondetChoice(name string, n int) int {
	if st.w.Opt.IsConcrete {
		var v uint64
		if st.concPos < len(st.w.Opt.Concrete) {
			v = st.w.Opt.Concrete[st.concPos]
		}
		st.concPos++
		st.events = append(st.events, event{name: name, kind: "choice"})
		if n <= 0 {
			return 0
		}
		return int(v % uint64(n))
	}
	c := st.choice(n, name)
	st.events = append(st.events, event{name: name, choice: c, kind: "choice"})
	return c
}

// vector turns the events of this path + a model into a replay vector.
func (st *State) vector(model map[string]uint64) ([]uint64, []string) {
	vec := make([]uint64, len(st.events))
	names := make([]string, len(st.events))
	for i, e := range st.events {
		names[i] = e.name
		if e.v == nil {
			vec[i] = uint64(e.choice)
			continue
		}
		if val, ok := model[e.name]; ok {
			vec[i] = val
		} else if d := st.domains[e.v.ID]; d != nil {
			// pick the smallest value in the domain
			for x := 0; x < 256; x++ {
				if d[x>>6]&(1<<(uint(x)&63)) != 0 {
					vec[i] = uint64(x)
					break
				}
			}
		}
	}
	return vec, names
}

// ---------------------------------------------------------------- path results

type PathResult struct {
	Status   string
	Msg      string
	Pos      string
	Fails    []AssertFail
	Observed []Observation
	Decs     []Decision
	Covers   map[string]bool
	Events   int
}

// model asks the solver for a model of the current path condition plus extra.
func (st *State) model(extra ...*smt.Term) (smt.Result, map[string]uint64) {
	var vars []*smt.Term
	for _, e := range st.events {
		if e.v != nil {
			vars = append(vars, e.v)
		}
	}
	st.w.Stats.SolverChecks++
	intFirst := st.w.Opt.IntFirst || (st.w.Opt.IntAssert && len(extra) > 0)
	if intFirst {
		if r, m := st.intQuery(true, extra...); r != smt.Unknown {
			return r, m
		}
	}
	r, m := st.w.Solver.CheckModel(vars, extra...)
	if r == smt.Unknown && !intFirst {
		r, m = st.intQuery(true, extra...)
	}
	return r, m
}

func (st *State) recordFail(id, kind, msg string, extra ...*smt.Term) (reachable bool) {
	reachable = true
	f := AssertFail{ID: id, Kind: kind, Msg: msg, Pos: st.curPos()}
	if st.w.Opt.IsConcrete {
		st.fails = append(st.fails, f)
		return
	}
	r, m := st.model(extra...)
	switch r {
	case smt.Unsat:
		if traceDec {
			fmt.Fprintf(os.Stderr, "recordFail %s: unsat (path infeasible?) decs=%d live=%v\n", id, len(st.decs), st.live())
			for i, d := range st.decs {
				fmt.Fprintf(os.Stderr, "   dec %d %s chosen=%d feas=%v\n", i, d.label, d.chosen, d.feas)
			}
		}
		return false // not actually reachable
	case smt.Unknown:
		f.Kind = "UNKNOWN-" + kind
	default:
		f.Model = m
		f.Vector, f.Names = st.vector(m)
	}
	st.fails = append(st.fails, f)
	return
}

// runPath executes the harness once along the plan prefix.
func (w *Worker) runPath(entry *ssa.Function, plan []Decision, synced int, hasPrev bool) (res PathResult) {
	st := w.newState()
	st.plan = plan
	st.synced = synced
	st.hasPrev = hasPrev
	defer func() {
		res.Fails = st.fails
		res.Observed = st.observed
		res.Decs = st.decs
		res.Covers = st.covers
		res.Events = len(st.events)
		w.Stats.Instrs += int64(st.steps)
		if r := recover(); r != nil {
			pe, ok := r.(*pathEnd)
			if !ok {
				panic(r)
			}
			res.Status, res.Msg, res.Pos = pe.status, pe.msg, pe.pos
			switch pe.status {
			case "UNWIND", "UNSUPPORTED":
				// the engine gives up on this path: keep one model per site so that the check can
				// run the real code natively on an input of exactly this path
				if key := "inconc:" + pe.status + ":" + pe.pos; !st.w.Opt.IsConcrete && !st.lenient && !st.w.covered[key] {
					st.w.covered[key] = true
					if r, m := st.model(); r == smt.Sat {
						f := AssertFail{ID: "inconclusive-path", Kind: "INCONC", Msg: pe.status + ": " + pe.msg, Pos: pe.pos, Model: m}
						f.Vector, f.Names = st.vector(m)
						st.fails = append(st.fails, f)
						res.Fails = st.fails
					}
				}
			case "PANIC", "OOB":
				if st.crashID != "" && st.crashCond != nil && st.crashCond.IsTrue() {
					// the crash belongs to a recorded finding class
					if !st.replaying() || st.w.Opt.IsConcrete {
						f := AssertFail{ID: st.crashID, Kind: "KNOWN", Msg: pe.msg, Pos: pe.pos}
						if !st.w.Opt.IsConcrete && !st.w.covered[st.crashID] {
							if r, m := st.model(); r == smt.Sat {
								f.Model = m
								f.Vector, f.Names = st.vector(m)
								st.w.covered[st.crashID] = true
								st.fails = append(st.fails, f)
							}
						} else if st.w.Opt.IsConcrete {
							st.fails = append(st.fails, f)
						}
						res.Fails = st.fails
					}
				} else if !(pe.status == "PANIC" && st.allowPanic) {
					st.recordFail("no-"+strings.ToLower(pe.status), pe.status, pe.msg)
					res.Fails = st.fails
				}
			}
		}
	}()
	// the harness takes one argument: *verifrt.T (an opaque non-nil pointer)
	tptr := st.alloc(64, "verifrt.T")
	st.pushFrame(entry, []Value{tptr}, nil)
	st.execFrame(st.frame)
	res.Status = "OK"
	return
}

// ---------------------------------------------------------------- DFS driver

type Summary struct {
	Paths       int
	ByStatus    map[string]int
	Fails       []AssertFail
	Covers      map[string]bool
	Inconclusive []string
	Stats       Stats
	SampleObs   [][]Observation
}

// nextPlan computes the next DFS plan from the decisions of the finished
// path; returns nil when the subtree below `floor` decisions is exhausted.
func nextPlan(decs []Decision, floor int) []Decision {
	for i := len(decs) - 1; i >= floor; i-- {
		d := decs[i]
		for alt := d.chosen + 1; alt < d.n; alt++ {
			if d.feas[alt] {
				np := make([]Decision, i+1)
				copy(np, decs[:i])
				nd := d
				nd.chosen = alt
				np[i] = nd
				return np
			}
		}
	}
	return nil
}

// Explore runs the DFS below the given prefix (whose decisions are fixed).
func (w *Worker) Explore(entry *ssa.Function, prefix []Decision, maxPaths int, onPath func(PathResult),
	wantDonate func() bool, donate func([]Decision) bool) *Summary {
	sum := &Summary{ByStatus: map[string]int{}, Covers: map[string]bool{}}
	plan := prefix
	floor := len(prefix)
	synced := 0
	hasPrev := false
	if w.Solver != nil {
		w.Solver.Reset()
	}
	for {
		res := w.runPath(entry, plan, synced, hasPrev)
		sum.Paths++
		w.Stats.Paths++
		sum.ByStatus[res.Status]++
		for k := range res.Covers {
			sum.Covers[k] = true
		}
		for _, f := range res.Fails {
			sum.Fails = append(sum.Fails, f)
		}
		switch res.Status {
		case "UNSUPPORTED", "UNWIND", "ABORT":
			sum.Inconclusive = append(sum.Inconclusive, res.Status+": "+res.Msg+" at "+res.Pos)
		}
		if len(sum.SampleObs) < 3 && len(res.Observed) > 0 {
			sum.SampleObs = append(sum.SampleObs, res.Observed)
		}
		if onPath != nil {
			onPath(res)
		}
		// work sharing: hand the shallowest untried alternatives to idle workers
		for wantDonate != nil && wantDonate() {
			given := false
			for i := floor; i < len(res.Decs) && !given; i++ {
				d := res.Decs[i]
				for alt := d.chosen + 1; alt < d.n; alt++ {
					if !d.feas[alt] {
						continue
					}
					pre := make([]Decision, i+1)
					for k := 0; k < i; k++ {
						pre[k] = Decision{n: res.Decs[k].n, chosen: res.Decs[k].chosen, feas: res.Decs[k].feas}
					}
					pre[i] = Decision{n: d.n, chosen: alt, feas: make([]bool, d.n)}
					if !donate(pre) {
						break
					}
					nf := append([]bool(nil), d.feas...)
					nf[alt] = false
					res.Decs[i].feas = nf
					given = true
					break
				}
			}
			if !given {
				break
			}
		}
		np := nextPlan(res.Decs, floor)
		if np == nil {
			break
		}
		if maxPaths > 0 && sum.Paths >= maxPaths {
			sum.Inconclusive = append(sum.Inconclusive, fmt.Sprintf("path cap %d reached", maxPaths))
			break
		}
		// solver stack: keep levels for decisions [0, len(np)-1)
		synced = len(np) - 1
		hasPrev = true
		if w.Solver != nil {
			w.Solver.PopTo(synced)
		}
		plan = np
	}
	sum.Stats = w.Stats
	return sum
}

func SortedKeys(m map[string]bool) []string {
	var ks []string
	for k := range m {
		ks = append(ks, k)
	}
	sort.Strings(ks)
	return ks
}

// ConcreteResult: outcome of one concrete engine run (translator validation).
type ConcreteResult struct {
	Status string
	Msg    string
	Obs    []string
	Fails  []string
	Known  []string
}

// RunConcrete executes the harness in the engine on a concrete replay vector.
func RunConcrete(p *Program, pkg, fn string, params map[string]int, vec []uint64, loopCap, stepCap int) (*ConcreteResult, error) {
	entry := p.FindFunc(pkg, fn)
	if entry == nil {
		return nil, fmt.Errorf("harness %s.%s not found", pkg, fn)
	}
	w, err := concreteWorker(p, loopCap, stepCap)
	if err != nil {
		return nil, err
	}
	w.Params = params
	w.Opt.Concrete = vec
	res := w.runPath(entry, nil, 0, false)
	cr := &ConcreteResult{Status: res.Status, Msg: res.Msg + " " + res.Pos}
	if cr.Status == "ASSUME" || cr.Status == "ASSERTFAIL" || cr.Status == "OK" || cr.Status == "PANIC" {
		// same vocabulary as the native runner
	}
	for _, o := range res.Observed {
		cr.Obs = append(cr.Obs, o.Name+"="+o.Val)
	}
	for _, f := range res.Fails {
		switch f.Kind {
		case "KNOWN":
			cr.Known = append(cr.Known, f.ID)
		case "PANIC":
			cr.Fails = append(cr.Fails, "no-panic")
		case "OOB":
			cr.Fails = append(cr.Fails, "no-oob")
		default:
			cr.Fails = append(cr.Fails, f.ID)
		}
	}
	return cr, nil
}

var concWorkers = map[*Program]*Worker{}

func concreteWorker(p *Program, loopCap, stepCap int) (*Worker, error) {
	if w, ok := concWorkers[p]; ok {
		w.Opt.LoopCap, w.Opt.StepCap = loopCap, stepCap
		if loopCap == 0 {
			w.Opt.LoopCap = 200
		}
		if stepCap == 0 {
			w.Opt.StepCap = 2_000_000
		}
		return w, nil
	}
	w, err := NewWorker(p, Options{IsConcrete: true, LoopCap: loopCap, StepCap: stepCap})
	if err != nil {
		return nil, err
	}
	concWorkers[p] = w
	return w, nil
}

// intervalDecide: three-valued evaluation of a condition by sound interval
// analysis under the byte domains. ok=false when undetermined.
func (st *State) intervalDecide(t *smt.Term, depth int) (val, ok bool) {
	if depth > 6 {
		return false, false
	}
	switch t.Op {
	case smt.OpConst:
		return t.V != 0, true
	case smt.OpBNot:
		v, ok := st.intervalDecide(t.A, depth+1)
		return !v, ok
	case smt.OpBAnd:
		va, oka := st.intervalDecide(t.A, depth+1)
		vb, okb := st.intervalDecide(t.B, depth+1)
		if (oka && !va) || (okb && !vb) {
			return false, true
		}
		if oka && okb {
			return true, true
		}
	case smt.OpBOr:
		va, oka := st.intervalDecide(t.A, depth+1)
		vb, okb := st.intervalDecide(t.B, depth+1)
		if (oka && va) || (okb && vb) {
			return true, true
		}
		if oka && okb {
			return false, true
		}
	case smt.OpUlt, smt.OpUle, smt.OpEq, smt.OpSlt, smt.OpSle:
		if t.A.W == 0 {
			return false, false
		}
		la, ha := urangeD(t.A, 0, st.domains)
		lb, hb := urangeD(t.B, 0, st.domains)
		switch t.Op {
		case smt.OpUlt:
			if ha < lb {
				return true, true
			}
			if la >= hb {
				return false, true
			}
		case smt.OpUle:
			if ha <= lb {
				return true, true
			}
			if la > hb {
				return false, true
			}
		case smt.OpEq:
			if ha < lb || hb < la {
				return false, true
			}
			if la == ha && lb == hb && la == lb {
				return true, true
			}
		case smt.OpSlt, smt.OpSle:
			half := uint64(1) << (t.A.W - 1)
			if ha < half && hb < half {
				if t.Op == smt.OpSlt {
					if ha < lb {
						return true, true
					}
					if la >= hb {
						return false, true
					}
				} else {
					if ha <= lb {
						return true, true
					}
					if la > hb {
						return false, true
					}
				}
			}
			if la >= half && hb < half { // a negative, b non-negative
				return true, true
			}
			if ha < half && lb >= half { // a non-negative, b negative
				return false, true
			}
		}
	}
	return false, false
}

// constOverDomain: is the single-variable term t constant over v's domain?
func (st *State) constOverDomain(t, v *smt.Term) (uint64, bool) {
	dom := st.domains[v.ID]
	if dom == nil || v.W != 8 {
		return 0, false
	}
	if domCount(dom) > 64 {
		return 0, false
	}
	var cur uint64
	env := func(*smt.Term) uint64 { return cur }
	first := true
	var val uint64
	for x := 0; x < 256; x++ {
		if dom[x>>6]&(1<<(uint(x)&63)) == 0 {
			continue
		}
		cur = uint64(x)
		r, ok := st.c.Eval(t, env)
		if !ok {
			return 0, false
		}
		if first {
			val, first = r, false
		} else if r != val {
			return 0, false
		}
	}
	return val, !first
}

func (st *State) simplifyUnderDomains(t *smt.Term, memo map[uint32]*smt.Term, depth int) *smt.Term {
	if t.Op == smt.OpConst || t.Op == smt.OpVar || depth > 200 {
		return t
	}
	if r, ok := memo[t.ID]; ok {
		return r
	}
	res := t
	ids, small := t.Supp()
	if small && len(ids) == 1 {
		v := st.c.TermByID(ids[0])
		if val, ok := st.constOverDomain(t, v); ok {
			if t.W == 0 {
				res = st.c.Bool(val != 0)
			} else {
				res = st.c.Const(val, t.W)
			}
		}
		memo[t.ID] = res
		return res
	}
	if t.Op == smt.OpUF || t.Op >= smt.OpFLt {
		memo[t.ID] = t
		return t
	}
	var a, b, c *smt.Term
	if t.A != nil {
		a = st.simplifyUnderDomains(t.A, memo, depth+1)
	}
	if t.B != nil {
		b = st.simplifyUnderDomains(t.B, memo, depth+1)
	}
	if t.C != nil {
		c = st.simplifyUnderDomains(t.C, memo, depth+1)
	}
	if a != t.A || b != t.B || c != t.C {
		res = st.c.Rebuild(t, a, b, c)
	}
	memo[t.ID] = res
	return res
}

// findSplittable finds a maximal single-variable, non-variable subterm of t
// whose value set over the variable's current domain is small (2..4 values).
func (st *State) findSplittable(t *smt.Term, seen map[uint32]bool, depth int) (*smt.Term, []uint64) {
	if t.Op == smt.OpConst || t.Op == smt.OpVar || seen[t.ID] || depth > 200 {
		return nil, nil
	}
	seen[t.ID] = true
	ids, small := t.Supp()
	if small && len(ids) == 1 {
		v := st.c.TermByID(ids[0])
		if v.W != 8 {
			return nil, nil
		}
		dom := st.domains[v.ID]
		vals := map[uint64]bool{}
		var cur uint64
		env := func(*smt.Term) uint64 { return cur }
		for x := 0; x < 256; x++ {
			if dom != nil && dom[x>>6]&(1<<(uint(x)&63)) == 0 {
				continue
			}
			cur = uint64(x)
			r, ok := st.c.Eval(t, env)
			if !ok {
				return nil, nil
			}
			vals[r] = true
			if len(vals) > 4 {
				return nil, nil
			}
		}
		if len(vals) < 2 {
			return nil, nil
		}
		var out []uint64
		for k := range vals {
			out = append(out, k)
		}
		sort.Slice(out, func(i, j int) bool { return out[i] < out[j] })
		return t, out
	}
	for _, ch := range []*smt.Term{t.A, t.B, t.C} {
		if ch != nil {
			if u, vals := st.findSplittable(ch, seen, depth+1); u != nil {
				return u, vals
			}
		}
	}
	return nil, nil
}

// sampleCross: in cross-check mode every 32nd fast-path verdict (counted per
// worker) is re-decided by the solver; re-deciding all of them multiplies the
// run time by 20 and more.
func (st *State) sampleCross() bool {
	st.w.crossN++
	return st.w.crossN%32 == 0
}
