package ssaexec

import "testing"

func TestParseFloatCriterion(t *testing.T) {
	if !pfCriterionOK {
		t.Fatal("criterion disagrees with strconv.ParseFloat")
	}
	if !unicodeLowerSummaryOK {
		t.Fatal("unicode.ToLower summary fails")
	}
}
