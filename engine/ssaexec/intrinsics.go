package ssaexec

import (
	"unicode"
	"fmt"
	"go/types"
	"math"
	"os"
	"strconv"
	"strings"

	"golang.org/x/tools/go/ssa"

	"gosym/smt"
)

// unicodeLowerSummaryOK: the summary used for unicode.ToLower on symbolic runes,
// checked against the toolchain's own tables for every rune.
var unicodeLowerSummaryOK = func() bool {
	for r := rune(0x80); r <= 0x10ffff; r++ {
		l := unicode.ToLower(r)
		switch r {
		case 0x212a:
			if l != 'k' {
				return false
			}
		case 0x130:
			if l != 'i' {
				return false
			}
		default:
			if l < 0x80 {
				return false
			}
		}
	}
	return true
}()

// pfOverflowConcrete: the criterion parseFloatOverflows branches on, as a pure
// function; pfCriterionOK checks it against strconv.ParseFloat when the engine
// starts (boundary literals and a deterministic sample of mantissa/exponent pairs).
func pfOverflowConcrete(mant uint64, exp int64, bits int) bool {
	limit, prefix := int64(309), uint64(1797693134862315808)
	if bits == 32 {
		limit, prefix = 39, 3402823567797336617
	}
	if mant == 0 {
		return false
	}
	d := int64(len(strconv.FormatUint(mant, 10)))
	switch {
	case d+exp > limit:
		return true
	case d+exp < limit:
		return false
	case d > 19:
		return true
	}
	scale := uint64(1)
	for i := d; i < 19; i++ {
		scale *= 10
	}
	return mant*scale >= prefix
}

var pfCriterionOK = func() bool {
	check := func(mant uint64, exp int64, bits int) bool {
		_, err := strconv.ParseFloat(strconv.FormatUint(mant, 10)+"e"+strconv.FormatInt(exp, 10), bits)
		return (err != nil) == pfOverflowConcrete(mant, exp, bits)
	}
	x := uint64(88172645463325252)
	for i := 0; i < 40000; i++ {
		x ^= x << 13
		x ^= x >> 7
		x ^= x << 17
		mant := x
		for k := uint(0); k < uint(x>>60); k++ {
			mant /= 10
		}
		if mant >= 10000000000000000000 {
			mant /= 10 // readFloat keeps at most 19 digits
		}
		d := int64(len(strconv.FormatUint(mant, 10)))
		for _, bits := range []int{64, 32} {
			lim := int64(309)
			if bits == 32 {
				lim = 39
			}
			for _, e := range []int64{lim - d - 1, lim - d, lim - d + 1, int64(x>>40)%700 - 350} {
				if !check(mant, e, bits) {
					return false
				}
			}
		}
	}
	for _, m := range []uint64{1797693134862315807, 1797693134862315808, 17976931348623157, 17976931348623158, 17976931348623159, 179769313486231580, 179769313486231581, 2, 1, 9,
		3402823567797336616, 3402823567797336617, 34028235, 34028236, 340282356, 340282357} {
		for e := int64(-30); e <= 330; e++ {
			if !check(m, e, 64) || !check(m, e, 32) {
				return false
			}
		}
	}
	return true
}()

type intrinsic func(st *State, fn *ssa.Function, args []Value) Value

const rtPkg = "github.com/goccy/go-json/internal/runtime."

func intrinsics() map[string]intrinsic {
	m := map[string]intrinsic{}
	// ---- sync.Pool
	m["(*sync.Pool).Get"] = func(st *State, fn *ssa.Function, args []Value) Value {
		// POOLREUSE=1: the pool hands back the object most recently Put (a legal
		// sync.Pool behaviour that maximises state carried between calls);
		// otherwise every Get is served by New (also legal)
		if st.w.Params["POOLREUSE"] == 1 {
			if pa := tm(args[0]); pa.IsConst() {
				if stack := st.pools[pa.V]; len(stack) > 0 {
					v := stack[len(stack)-1]
					st.pools[pa.V] = stack[:len(stack)-1]
					return v
				}
			}
		}
		pt := fn.Signature.Recv().Type().(*types.Pointer).Elem()
		ti := st.tc.of(pt)
		s := pt.Underlying().(*types.Struct)
		for i := 0; i < s.NumFields(); i++ {
			if s.Field(i).Name() == "New" {
				fv := st.loadT(st.addrAdd(tm(args[0]), ti.fields[i].off), s.Field(i).Type())
				if t := tm(fv); t.IsConst() && t.V == 0 {
					return Agg{st.zero64, st.zero64}
				}
				return st.callValue(fv, nil)
			}
		}
		st.end("UNSUPPORTED", "sync.Pool without New field")
		return nil
	}
	m["(*sync.Pool).Put"] = func(st *State, fn *ssa.Function, args []Value) Value {
		if st.w.Params["POOLREUSE"] == 1 {
			if pa := tm(args[0]); pa.IsConst() {
				if st.pools == nil {
					st.pools = map[uint64][]Value{}
				}
				st.pools[pa.V] = append(st.pools[pa.V], args[1])
			}
		}
		return nil
	}
	// ---- sync primitives in sequential runs
	for _, n := range []string{"(*sync.Mutex).Lock", "(*sync.Mutex).Unlock", "(*sync.RWMutex).Lock", "(*sync.RWMutex).Unlock",
		"(*sync.RWMutex).RLock", "(*sync.RWMutex).RUnlock"} {
		m[n] = func(st *State, fn *ssa.Function, args []Value) Value { return nil }
	}
	m["(*sync.Once).Do"] = func(st *State, fn *ssa.Function, args []Value) Value {
		// done flag = first 4 bytes of the Once (atomic.Uint32 / uint32)
		done := st.bytesToTerm(st.loadBytes(tm(args[0]), 4))
		if !done.IsConst() {
			st.end("UNSUPPORTED", "symbolic sync.Once state")
		}
		if done.V == 0 {
			st.callValue(args[1], nil)
			st.storeBytes(tm(args[0]), st.termToBytes(st.c.Const(1, 32), 4))
		}
		return nil
	}
	// ---- sync/atomic (sequentially consistent, single thread)
	atomicLoad := func(w int) intrinsic {
		return func(st *State, fn *ssa.Function, args []Value) Value {
			return st.bytesToTerm(st.loadBytes(tm(args[0]), w))
		}
	}
	atomicStore := func(w int) intrinsic {
		return func(st *State, fn *ssa.Function, args []Value) Value {
			st.storeBytes(tm(args[0]), st.termToBytes(tm(args[1]), w))
			return nil
		}
	}
	atomicAdd := func(w int) intrinsic {
		return func(st *State, fn *ssa.Function, args []Value) Value {
			old := st.bytesToTerm(st.loadBytes(tm(args[0]), w))
			nv := st.c.Add(old, tm(args[1]))
			st.storeBytes(tm(args[0]), st.termToBytes(nv, w))
			return nv
		}
	}
	atomicCAS := func(w int) intrinsic {
		return func(st *State, fn *ssa.Function, args []Value) Value {
			old := st.bytesToTerm(st.loadBytes(tm(args[0]), w))
			eq := st.c.Eq(old, tm(args[1]))
			if st.branch(eq, "cas") {
				st.storeBytes(tm(args[0]), st.termToBytes(tm(args[2]), w))
				return st.c.True
			}
			return st.c.False
		}
	}
	atomicSwap := func(w int) intrinsic {
		return func(st *State, fn *ssa.Function, args []Value) Value {
			old := st.bytesToTerm(st.loadBytes(tm(args[0]), w))
			st.storeBytes(tm(args[0]), st.termToBytes(tm(args[1]), w))
			return old
		}
	}
	for _, p := range []struct {
		suffix string
		w      int
	}{{"Int32", 4}, {"Uint32", 4}, {"Int64", 8}, {"Uint64", 8}, {"Uintptr", 8}, {"Pointer", 8}} {
		m["sync/atomic.Load"+p.suffix] = atomicLoad(p.w)
		m["sync/atomic.Store"+p.suffix] = atomicStore(p.w)
		m["sync/atomic.Add"+p.suffix] = atomicAdd(p.w)
		m["sync/atomic.CompareAndSwap"+p.suffix] = atomicCAS(p.w)
		m["sync/atomic.Swap"+p.suffix] = atomicSwap(p.w)
	}
	// ---- strings.ToLower / unicode.ToLower on symbolic text
	// strings.ToLower: all-ASCII strings get the per-byte formula (one path);
	// anything else runs the real body (range over a symbolic string).
	m["strings.ToLower"] = func(st *State, fn *ssa.Function, args []Value) Value {
		a := args[0].(Agg)
		bs := st.seqBytes(tm(a[0]), tm(a[1]))
		sym := false
		for _, b := range bs {
			if !b.IsConst() {
				sym = true
			}
		}
		if !sym {
			return fallThrough
		}
		c := st.c
		ascii := c.True
		for _, b := range bs {
			ascii = c.BAnd(ascii, c.Ult(b, c.Const(0x80, 8)))
		}
		if !st.branch(ascii, "tolower-ascii") {
			return fallThrough
		}
		out := make([]*smt.Term, len(bs))
		for i, b := range bs {
			up := c.BAnd(c.Ule(c.Const('A', 8), b), c.Ule(b, c.Const('Z', 8)))
			out[i] = c.Ite(up, c.Add(b, c.Const(32, 8)), b)
		}
		p := st.newBytesObject(out, len(out), "tolower")
		return Agg{p, c.Const(uint64(len(out)), 64)}
	}
	// unicode.ToLower(r) for a symbolic rune: exact below 0x80; above, a
	// summary checked natively over every rune when the engine starts
	// (unicodeLowerSummaryOK): U+212A -> 'k', U+0130 -> 'i', every other rune
	// >= 0x80 maps to some rune >= 0x80 (left unconstrained: over-approximation).
	m["unicode.ToLower"] = func(st *State, fn *ssa.Function, args []Value) Value {
		r := tm(args[0])
		if r.IsConst() {
			return fallThrough
		}
		if !unicodeLowerSummaryOK {
			st.end("UNSUPPORTED", "unicode.ToLower summary does not hold for this toolchain")
		}
		c := st.c
		k := func(v uint64) *smt.Term { return c.Const(v, 32) }
		if st.branch(c.Ult(r, k(0x80)), "tolower-rune-ascii") {
			up := c.BAnd(c.Ule(k('A'), r), c.Ule(r, k('Z')))
			return c.Ite(up, c.Add(r, k(32)), r)
		}
		if st.branch(c.Eq(r, k(0x212a)), "tolower-kelvin") {
			return k('k')
		}
		if st.branch(c.Eq(r, k(0x130)), "tolower-dotted-i") {
			return k('i')
		}
		v := c.Var(st.freshName("tolower!rune"), 32)
		st.assertAtLevel(c.BAnd(c.Ule(k(0x80), v), c.Ule(v, k(0x10ffff))))
		return v
	}
	// ---- internal/bytealg (assembly in the real runtime)
	indexByte := func(st *State, fn *ssa.Function, args []Value) Value {
		a := args[0].(Agg)
		n := st.concreteInt(tm(a[1]), "IndexByte length")
		c := tm(args[1])
		if n == 0 {
			return st.c.Const(^uint64(0), 64)
		}
		bs := st.loadBytes(tm(a[0]), n)
		for i, b := range bs {
			eq := st.simplifyUnderDomains(st.c.Eq(b, c), map[uint32]*smt.Term{}, 0)
			if eq.IsFalse() {
				continue
			}
			if eq.IsTrue() || st.branch(eq, "indexbyte") {
				return st.c.Const(uint64(i), 64)
			}
		}
		return st.c.Const(^uint64(0), 64)
	}
	conc := func(st *State, v Value) []byte {
		a := v.(Agg)
		bs := st.seqBytes(tm(a[0]), tm(a[1]))
		out := make([]byte, len(bs))
		for i, b := range bs {
			if !b.IsConst() {
				st.end("UNSUPPORTED", "bytealg routine on symbolic bytes")
			}
			out[i] = byte(b.V)
		}
		return out
	}
	count := func(st *State, fn *ssa.Function, args []Value) Value {
		c := tm(args[1])
		if !c.IsConst() {
			st.end("UNSUPPORTED", "bytealg.Count with symbolic byte")
		}
		n := 0
		for _, b := range conc(st, args[0]) {
			if b == byte(c.V) {
				n++
			}
		}
		return st.c.Const(uint64(n), 64)
	}
	m["internal/bytealg.Count"] = count
	m["internal/bytealg.CountString"] = count
	index := func(st *State, fn *ssa.Function, args []Value) Value {
		return st.c.Const(uint64(int64(strings.Index(string(conc(st, args[0])), string(conc(st, args[1]))))), 64)
	}
	m["internal/bytealg.Index"] = index
	m["internal/bytealg.IndexString"] = index
	lastIndexByte := func(st *State, fn *ssa.Function, args []Value) Value {
		c := tm(args[1])
		if !c.IsConst() {
			st.end("UNSUPPORTED", "bytealg.LastIndexByte with symbolic byte")
		}
		return st.c.Const(uint64(int64(strings.LastIndexByte(string(conc(st, args[0])), byte(c.V)))), 64)
	}
	m["internal/bytealg.LastIndexByte"] = lastIndexByte
	m["internal/bytealg.LastIndexByteString"] = lastIndexByte
	m["internal/bytealg.Compare"] = func(st *State, fn *ssa.Function, args []Value) Value {
		return st.c.Const(uint64(int64(strings.Compare(string(conc(st, args[0])), string(conc(st, args[1]))))), 64)
	}
	m["internal/bytealg.Equal"] = func(st *State, fn *ssa.Function, args []Value) Value {
		return st.strEq(Agg{args[0].(Agg)[0], args[0].(Agg)[1]}, Agg{args[1].(Agg)[0], args[1].(Agg)[1]})
	}
	m["internal/bytealg.MakeNoZero"] = func(st *State, fn *ssa.Function, args []Value) Value {
		n := st.concreteInt(tm(args[0]), "MakeNoZero length")
		p := st.alloc(n, "makenozero")
		k := st.c.Const(uint64(n), 64)
		return Agg{p, k, k}
	}
	m["internal/bytealg.IndexByte"] = indexByte
	m["internal/bytealg.IndexByteString"] = indexByte
	// ---- fmt / errors used only to build error values
	m["fmt.Sprintf"] = func(st *State, fn *ssa.Function, args []Value) (res Value) {
		// concrete arguments of basic types are formatted for real (the encoder
		// compiler builds object keys with Sprintf); anything else is opaque
		defer func() {
			if r := recover(); r != nil {
				if _, isEnd := r.(*pathEnd); !isEnd {
					panic(r)
				}
				res = st.constString("<fmt>")
			}
		}()
		format := st.goString(args[0])
		va := args[1].(Agg)
		n := st.concreteInt(tm(va[1]), "variadic length")
		var gargs []interface{}
		for i := 0; i < n; i++ {
			iv := st.loadT(st.addrAdd(tm(va[0]), int64(i*16)), types.NewInterfaceType(nil, nil)).(Agg)
			gv, ok := st.goValue(iv)
			if !ok {
				return st.constString("<fmt>")
			}
			gargs = append(gargs, gv)
		}
		return st.constString(fmt.Sprintf(format, gargs...))
	}
	m["fmt.Sprint"] = func(st *State, fn *ssa.Function, args []Value) Value { return st.constString("<fmt>") }
	m["fmt.Errorf"] = func(st *State, fn *ssa.Function, args []Value) Value { return st.opaqueError("<fmt.Errorf>") }
	m["fmt.Fprintf"] = func(st *State, fn *ssa.Function, args []Value) Value {
		return Agg{st.zero64, Agg{st.zero64, st.zero64}}
	}
	m["fmt.Println"] = m["fmt.Fprintf"]
	m["fmt.Printf"] = m["fmt.Fprintf"]
	// ---- go-json internal/runtime linknames, answered from type tokens
	m[rtPkg+"rtype_Kind"] = func(st *State, fn *ssa.Function, args []Value) Value {
		return st.c.Const(uint64(reflectKind(st.tokenType(args[0]))), 64)
	}
	m[rtPkg+"rtype_Size"] = func(st *State, fn *ssa.Function, args []Value) Value {
		return st.c.Const(uint64(st.tc.of(st.tokenType(args[0])).size), 64)
	}
	m[rtPkg+"rtype_Align"] = func(st *State, fn *ssa.Function, args []Value) Value {
		return st.c.Const(uint64(st.w.P.Sizes.Alignof(st.tokenType(args[0]))), 64)
	}
	m[rtPkg+"rtype_FieldAlign"] = m[rtPkg+"rtype_Align"]
	m[rtPkg+"rtype_Elem"] = func(st *State, fn *ssa.Function, args []Value) Value {
		t := st.tokenType(args[0])
		var e types.Type
		switch u := t.Underlying().(type) {
		case *types.Pointer:
			e = u.Elem()
		case *types.Slice:
			e = u.Elem()
		case *types.Array:
			e = u.Elem()
		case *types.Map:
			e = u.Elem()
		case *types.Chan:
			e = u.Elem()
		default:
			st.end("PANIC", "reflect: Elem of invalid type %s", t)
		}
		return st.reflectType(e)
	}
	m[rtPkg+"rtype_Key"] = func(st *State, fn *ssa.Function, args []Value) Value {
		t := st.tokenType(args[0])
		mt, ok := t.Underlying().(*types.Map)
		if !ok {
			st.end("PANIC", "reflect: Key of non-map type %s", t)
		}
		return st.reflectType(mt.Key())
	}
	m[rtPkg+"rtype_Len"] = func(st *State, fn *ssa.Function, args []Value) Value {
		t := st.tokenType(args[0])
		at, ok := t.Underlying().(*types.Array)
		if !ok {
			st.end("PANIC", "reflect: Len of non-array type %s", t)
		}
		return st.c.Const(uint64(at.Len()), 64)
	}
	m[rtPkg+"rtype_String"] = func(st *State, fn *ssa.Function, args []Value) Value {
		return st.constString(types.TypeString(st.tokenType(args[0]), func(p *types.Package) string { return p.Name() }))
	}
	m[rtPkg+"rtype_Name"] = func(st *State, fn *ssa.Function, args []Value) Value {
		t := st.tokenType(args[0])
		if n, ok := t.(*types.Named); ok {
			return st.constString(n.Obj().Name())
		}
		if b, ok := t.(*types.Basic); ok {
			return st.constString(b.Name())
		}
		return st.constString("")
	}
	m[rtPkg+"rtype_PkgPath"] = func(st *State, fn *ssa.Function, args []Value) Value {
		t := st.tokenType(args[0])
		if n, ok := t.(*types.Named); ok && n.Obj().Pkg() != nil {
			return st.constString(n.Obj().Pkg().Path())
		}
		return st.constString("")
	}
	m[rtPkg+"rtype_NumMethod"] = func(st *State, fn *ssa.Function, args []Value) Value {
		t := st.tokenType(args[0])
		ms := types.NewMethodSet(t)
		n := 0
		for i := 0; i < ms.Len(); i++ {
			if ms.At(i).Obj().Exported() || isIfaceType(t) {
				n++
			}
		}
		return st.c.Const(uint64(n), 64)
	}
	m[rtPkg+"rtype_ptrTo"] = func(st *State, fn *ssa.Function, args []Value) Value {
		return st.c.Const(st.w.tokenFor(types.NewPointer(st.tokenType(args[0]))), 64)
	}
	m[rtPkg+"PtrTo"] = func(st *State, fn *ssa.Function, args []Value) Value {
		return st.c.Const(st.w.tokenFor(types.NewPointer(st.tokenType(args[0]))), 64)
	}
	m[rtPkg+"IfaceIndir"] = func(st *State, fn *ssa.Function, args []Value) Value {
		return st.c.Bool(!pointerShaped(st.tokenType(args[0])))
	}
	// ---- reflect allocation / copy linknames (decoder & encoder packages)
	for _, pk := range []string{"github.com/goccy/go-json/internal/decoder.", "github.com/goccy/go-json/internal/encoder.",
		"github.com/goccy/go-json/internal/encoder/vm.", "github.com/goccy/go-json/internal/encoder/vm_indent.",
		"github.com/goccy/go-json/internal/encoder/vm_color.", "github.com/goccy/go-json/internal/encoder/vm_color_indent.",
		"github.com/goccy/go-json."} {
		m[pk+"unsafe_New"] = func(st *State, fn *ssa.Function, args []Value) Value {
			t := st.tokenType(args[0])
			return st.alloc(int(st.tc.of(t).size), "new:"+t.String())
		}
		m[pk+"unsafe_NewArray"] = func(st *State, fn *ssa.Function, args []Value) Value {
			t := st.tokenType(args[0])
			n := st.concreteInt(tm(args[1]), "unsafe_NewArray length")
			return st.alloc(int(st.tc.of(t).size)*n, "newarray:"+t.String())
		}
		m[pk+"typedmemmove"] = func(st *State, fn *ssa.Function, args []Value) Value {
			t := st.tokenType(args[0])
			n := int(st.tc.of(t).size)
			if n > 0 {
				st.storeBytes(tm(args[1]), st.loadBytes(tm(args[2]), n))
			}
			return nil
		}
		m[pk+"copySlice"] = func(st *State, fn *ssa.Function, args []Value) Value {
			// typedslicecopy(elemType, dst, src sliceHeader) int
			t := st.tokenType(args[0])
			es := int(st.tc.of(t).size)
			dst, src := args[1].(Agg), args[2].(Agg)
			nd := st.concreteInt(tm(dst[1]), "copySlice dst len")
			ns := st.concreteInt(tm(src[1]), "copySlice src len")
			n := nd
			if ns < n {
				n = ns
			}
			if n*es > 0 {
				st.storeBytes(tm(dst[0]), st.loadBytes(tm(src[0]), n*es))
			}
			return st.c.Const(uint64(n), 64)
		}
	}
	m[rtPkg+"typelinks"] = func(st *State, fn *ssa.Function, args []Value) Value {
		// no typelink sections: AnalyzeTypeAddr gives up and every type takes the slow (map) path
		z := Agg{st.zero64, st.zero64, st.zero64}
		return Agg{z, z}
	}
	m[rtPkg+"rtype_NumField"] = func(st *State, fn *ssa.Function, args []Value) Value {
		s, ok := st.tokenType(args[0]).Underlying().(*types.Struct)
		if !ok {
			st.end("PANIC", "reflect: NumField of non-struct type")
		}
		return st.c.Const(uint64(s.NumFields()), 64)
	}
	m[rtPkg+"rtype_Field"] = func(st *State, fn *ssa.Function, args []Value) Value {
		t := st.tokenType(args[0])
		s, ok := t.Underlying().(*types.Struct)
		if !ok {
			st.end("PANIC", "reflect: Field of non-struct type")
		}
		i := st.concreteInt(tm(args[1]), "field index")
		if i < 0 || i >= s.NumFields() {
			st.end("PANIC", "reflect: Field index out of bounds")
		}
		f := s.Field(i)
		ti := st.tc.of(t)
		pkgPath := ""
		if !f.Exported() && f.Pkg() != nil {
			pkgPath = f.Pkg().Path()
		}
		idx := st.alloc(8, "fieldindex")
		st.storeWord(idx, st.c.Const(uint64(i), 64))
		one := st.c.Const(1, 64)
		// reflect.StructField{Name, PkgPath, Type, Tag, Offset, Index, Anonymous}
		return Agg{st.constString(f.Name()), st.constString(pkgPath), st.reflectType(f.Type()), st.constString(s.Tag(i)),
			st.c.Const(uint64(ti.fields[i].off), 64), Agg{idx, one, one}, st.c.Bool(f.Embedded())}
	}
	// ---- reflect: Type values are (itab(reflect.Type,*reflect.rtype), type token)
	m["reflect.TypeOf"] = func(st *State, fn *ssa.Function, args []Value) Value {
		iv := args[0].(Agg)
		dyn := st.dynType(iv, nil)
		if dyn == nil {
			return Agg{st.zero64, st.zero64}
		}
		return st.reflectType(dyn)
	}
	m[rtPkg+"RType2Type"] = func(st *State, fn *ssa.Function, args []Value) Value {
		p := tm(args[0])
		if p.IsConst() && p.V == 0 {
			return Agg{st.zero64, st.zero64}
		}
		return st.reflectType(st.tokenType(args[0]))
	}
	wrapT := func(name string) {
		inner := m[rtPkg+"rtype_"+name]
		m["(*reflect.rtype)."+name] = func(st *State, fn *ssa.Function, args []Value) Value {
			return inner(st, fn, args)
		}
	}
	for _, n := range []string{"Elem", "Key", "Kind", "Size", "Len", "String", "Name", "PkgPath", "NumMethod", "Align", "FieldAlign"} {
		wrapT(n)
	}
	implements := func(st *State, fn *ssa.Function, args []Value) Value {
		t := st.tokenType(args[0])
		u := st.tokenType(args[1].(Agg)[1])
		it, ok := u.Underlying().(*types.Interface)
		if !ok {
			st.end("PANIC", "reflect: non-interface type passed to Type.Implements")
		}
		return st.c.Bool(types.Implements(t, it))
	}
	m["(*reflect.rtype).Implements"] = implements
	m[rtPkg+"rtype_Implements"] = implements
	ptrTo := func(st *State, fn *ssa.Function, args []Value) Value {
		a := args[0]
		if ag, ok := a.(Agg); ok {
			a = ag[1]
		}
		return st.reflectType(types.NewPointer(st.tokenType(a)))
	}
	m["reflect.PtrTo"] = ptrTo
	m["reflect.PointerTo"] = ptrTo
	m["internal/reflectlite.TypeOf"] = func(st *State, fn *ssa.Function, args []Value) Value {
		iv := args[0].(Agg)
		dyn := st.dynType(iv, nil)
		if dyn == nil {
			return Agg{st.zero64, st.zero64}
		}
		rp := st.w.P.Prog.ImportedPackage("internal/reflectlite")
		if rp == nil {
			st.end("UNSUPPORTED", "reflectlite not loaded")
		}
		iface := rp.Type("Type").Type()
		rt := types.NewPointer(rp.Type("rtype").Type())
		return Agg{st.c.Const(st.w.itabFor(iface, rt), 64), st.c.Const(st.w.tokenFor(dyn), 64)}
	}
	m["(internal/reflectlite.rtype).Comparable"] = func(st *State, fn *ssa.Function, args []Value) Value {
		return st.c.Bool(types.Comparable(st.tokenType(args[0])))
	}
	m["(*internal/reflectlite.rtype).Comparable"] = m["(internal/reflectlite.rtype).Comparable"]
	// ---- reflect.Value mini-model: (type token, data word, flag) -- only what
	// interfaceDecoder.Decode and the marshaler plumbing use
	m["reflect.ValueOf"] = func(st *State, fn *ssa.Function, args []Value) Value {
		iv := args[0].(Agg)
		dyn := st.dynType(iv, nil)
		if dyn == nil {
			return Agg{st.zero64, st.zero64, st.zero64}
		}
		// third word: the address of the value when it is addressable (0: not addressable,
		// as every result of reflect.ValueOf)
		return Agg{st.c.Const(st.w.tokenFor(dyn), 64), iv[1], st.zero64}
	}
	valType := func(st *State, v Value) types.Type {
		a := v.(Agg)
		t := tm(a[0])
		if t.IsConst() && t.V == 0 {
			st.end("PANIC", "reflect: call of method on zero Value")
		}
		return st.tokenType(a[0])
	}
	m["(reflect.Value).NumMethod"] = func(st *State, fn *ssa.Function, args []Value) Value {
		t := valType(st, args[0])
		if it, ok := t.Underlying().(*types.Interface); ok {
			return st.c.Const(uint64(it.NumMethods()), 64)
		}
		ms := types.NewMethodSet(t)
		n := 0
		for i := 0; i < ms.Len(); i++ {
			if ms.At(i).Obj().Exported() {
				n++
			}
		}
		return st.c.Const(uint64(n), 64)
	}
	m["(reflect.Value).CanAddr"] = func(st *State, fn *ssa.Function, args []Value) Value {
		return st.c.BNot(st.c.Eq(tm(args[0].(Agg)[2]), st.zero64))
	}
	m["(reflect.Value).Addr"] = func(st *State, fn *ssa.Function, args []Value) Value {
		a := args[0].(Agg)
		t := valType(st, args[0])
		if f := tm(a[2]); f.IsConst() && f.V == 0 {
			st.end("PANIC", "reflect.Value.Addr of unaddressable value")
		}
		return Agg{st.c.Const(st.w.tokenFor(types.NewPointer(t)), 64), a[2], st.zero64}
	}
	m["reflect.New"] = func(st *State, fn *ssa.Function, args []Value) Value {
		t := st.tokenType(args[0].(Agg)[1])
		p := st.alloc(int(st.tc.of(t).size), "reflect.New:"+t.String())
		return Agg{st.c.Const(st.w.tokenFor(types.NewPointer(t)), 64), p, st.zero64}
	}
	m["(reflect.Value).Elem"] = func(st *State, fn *ssa.Function, args []Value) Value {
		a := args[0].(Agg)
		t := valType(st, args[0])
		switch u := t.Underlying().(type) {
		case *types.Pointer:
			p := tm(a[1])
			if p.IsConst() && p.V == 0 {
				return Agg{st.zero64, st.zero64, st.zero64}
			}
			et := u.Elem()
			if pointerShaped(et) {
				return Agg{st.c.Const(st.w.tokenFor(et), 64), st.loadWord(p), p}
			}
			return Agg{st.c.Const(st.w.tokenFor(et), 64), p, p}
		case *types.Interface:
			inner := st.loadT(tm(a[1]), t).(Agg)
			dyn := st.dynType(inner, t)
			if dyn == nil {
				return Agg{st.zero64, st.zero64, st.zero64}
			}
			return Agg{st.c.Const(st.w.tokenFor(dyn), 64), inner[1], st.zero64}
		}
		st.end("PANIC", "reflect: call of reflect.Value.Elem on %s Value", t)
		return nil
	}
	m["(reflect.Value).Set"] = func(st *State, fn *ssa.Function, args []Value) Value {
		dst, src := args[0].(Agg), args[1].(Agg)
		t := valType(st, args[0])
		addr := tm(dst[2])
		if addr.IsConst() && addr.V == 0 {
			st.end("PANIC", "reflect.Value.Set using unaddressable value")
		}
		if pointerShaped(t) {
			st.storeWord(addr, tm(src[1]))
		} else if n := int(st.tc.of(t).size); n > 0 {
			st.storeBytes(addr, st.loadBytes(tm(src[1]), n))
		}
		return nil
	}
	m["(reflect.Value).IsNil"] = func(st *State, fn *ssa.Function, args []Value) Value {
		a := args[0].(Agg)
		t := valType(st, args[0])
		if pointerShaped(t) {
			return st.c.Eq(tm(a[1]), st.zero64)
		}
		switch t.Underlying().(type) {
		case *types.Slice, *types.Interface:
			return st.c.Eq(st.loadWord(tm(a[1])), st.zero64)
		}
		st.end("PANIC", "reflect: call of reflect.Value.IsNil on %s Value", t)
		return nil
	}
	m["(reflect.Value).CanInterface"] = func(st *State, fn *ssa.Function, args []Value) Value { return st.c.True }
	m["(reflect.Value).IsValid"] = func(st *State, fn *ssa.Function, args []Value) Value {
		return st.c.BNot(st.c.Eq(tm(args[0].(Agg)[0]), st.zero64))
	}
	m["(reflect.Value).Kind"] = func(st *State, fn *ssa.Function, args []Value) Value {
		return st.c.Const(uint64(reflectKind(valType(st, args[0]))), 64)
	}
	m["(reflect.Value).Type"] = func(st *State, fn *ssa.Function, args []Value) Value {
		return st.reflectType(valType(st, args[0]))
	}
	m["(reflect.Value).Interface"] = func(st *State, fn *ssa.Function, args []Value) Value {
		t := valType(st, args[0])
		a := args[0].(Agg)
		if _, ok := t.Underlying().(*types.Interface); ok {
			// the element inside the interface the data word points to
			inner := st.loadT(tm(a[1]), t).(Agg)
			if isEmptyIface(t) {
				return inner
			}
			return st.changeInterface(inner, t, types.NewInterfaceType(nil, nil))
		}
		return Agg{a[0], a[1]}
	}
	// ---- runtime map linknames used by the decoder
	dp := "github.com/goccy/go-json/internal/decoder."
	m[dp+"newArray"] = m[dp+"unsafe_NewArray"]
	m[dp+"makemap"] = func(st *State, fn *ssa.Function, args []Value) Value {
		mt, ok := st.tokenType(args[0]).Underlying().(*types.Map)
		if !ok {
			st.end("PANIC", "makemap of non-map type")
		}
		return st.newMap(mt.Key(), mt.Elem())
	}
	m[dp+"mapassign"] = func(st *State, fn *ssa.Function, args []Value) Value {
		mo := st.mapObj(args[1], true)
		k := st.loadT(tm(args[2]), mo.ktyp)
		v := st.loadT(tm(args[3]), mo.vtyp)
		st.mapUpdate(args[1], k, v, nil)
		return nil
	}
	m[dp+"mapassign_faststr"] = func(st *State, fn *ssa.Function, args []Value) Value {
		mo := st.mapObj(args[1], true)
		slot := st.alloc(int(st.tc.of(mo.vtyp).size), "mapslot")
		// like the runtime: for a key that is already present the returned slot holds the
		// current value (code that decodes into the slot in place merges with it)
		if cur, found := st.mapLookup(args[1], args[2]); found.IsTrue() && cur != nil {
			st.storeT(slot, mo.vtyp, cur)
		}
		st.mapUpdate(args[1], args[2], slotRef{slot}, nil)
		return slot
	}
	// ---- runtime map iteration linknames used by the encoder VM
	ep := "github.com/goccy/go-json/internal/encoder."
	m[ep+"MapLen"] = func(st *State, fn *ssa.Function, args []Value) Value {
		mo := st.mapObj(args[0], false)
		if mo == nil {
			return st.zero64
		}
		return st.c.Const(uint64(len(mo.keys)), 64)
	}
	m[ep+"MapIterInit"] = func(st *State, fn *ssa.Function, args []Value) Value {
		it := tm(args[2])
		if !it.IsConst() {
			st.end("UNSUPPORTED", "symbolic map iterator address")
		}
		mo := st.mapObj(args[1], false)
		mi := &mapIterState{}
		if mo != nil {
			for i := range mo.keys {
				kp := st.alloc(int(st.tc.of(mo.ktyp).size), "mapiter-key")
				st.storeT(kp, mo.ktyp, mo.keys[i])
				var vp *smt.Term
				if sr, ok := mo.vals[i].(slotRef); ok {
					vp = sr.addr
				} else {
					vp = st.alloc(int(st.tc.of(mo.vtyp).size), "mapiter-val")
					st.storeT(vp, mo.vtyp, mo.vals[i])
				}
				mi.keys = append(mi.keys, kp)
				mi.vals = append(mi.vals, vp)
			}
		}
		if st.mapIters == nil {
			st.mapIters = map[uint64]*mapIterState{}
		}
		st.mapIters[it.V] = mi
		return nil
	}
	iterOf := func(st *State, v Value) *mapIterState {
		it := tm(v)
		if !it.IsConst() || st.mapIters[it.V] == nil {
			st.end("UNSUPPORTED", "map iterator not initialised")
		}
		return st.mapIters[it.V]
	}
	m[ep+"MapIterKey"] = func(st *State, fn *ssa.Function, args []Value) Value {
		mi := iterOf(st, args[0])
		if mi.pos >= len(mi.keys) {
			return st.zero64
		}
		return mi.keys[mi.pos]
	}
	m[ep+"MapIterValue"] = func(st *State, fn *ssa.Function, args []Value) Value {
		mi := iterOf(st, args[0])
		if mi.pos >= len(mi.vals) {
			return st.zero64
		}
		return mi.vals[mi.pos]
	}
	m[ep+"MapIterNext"] = func(st *State, fn *ssa.Function, args []Value) Value {
		iterOf(st, args[0]).pos++
		return nil
	}
	// ---- strconv.ParseFloat: acceptance from the real strconv.readFloat, value uninterpreted
	m["strconv.ParseFloat"] = func(st *State, fn *ssa.Function, args []Value) Value {
		sv := args[0].(Agg)
		n := st.concreteInt(tm(sv[1]), "ParseFloat length")
		bs := st.seqBytes(tm(sv[0]), tm(sv[1]))
		allConst := true
		raw := make([]byte, n)
		for i, b := range bs {
			if !b.IsConst() {
				allConst = false
				break
			}
			raw[i] = byte(b.V)
		}
		if allConst {
			bits := st.concreteInt(tm(args[1]), "bitSize")
			f, err := strconv.ParseFloat(string(raw), bits)
			if err != nil {
				return Agg{st.c.Const(math.Float64bits(f), 64), st.opaqueError("strconv.ParseFloat: " + err.Error())}
			}
			return Agg{st.c.Const(math.Float64bits(f), 64), Agg{st.zero64, st.zero64}}
		}
		rf := st.w.P.FindFunc("strconv", "readFloat")
		if rf == nil {
			st.end("UNSUPPORTED", "strconv.readFloat not found")
		}
		r := st.callFunction(rf, []Value{args[0]}, nil).(Agg)
		// (mantissa uint64, exp int, neg, trunc, hex bool, i int, ok bool)
		okT := st.c.BAnd(tm(r[6]), st.c.Eq(tm(r[5]), st.c.Const(uint64(n), 64)))
		if st.branch(okT, "parsefloat-ok") {
			val := st.c.UF("parsefloat", 64, tm(r[0]), tm(r[1]), st.c.B2BV(tm(r[2]), 8))
			// range error (the value rounds to ±Inf): decided exactly from mantissa and decimal
			// exponent for mantissas of up to 19 digits (not truncated, not hexadecimal)
			if st.parseFloatOverflows(tm(r[0]), tm(r[1]), tm(r[3]), tm(r[4]), st.concreteInt(tm(args[1]), "bitSize")) {
				return Agg{val, st.opaqueError("strconv.ParseFloat: value out of range")}
			}
			return Agg{val, Agg{st.zero64, st.zero64}}
		}
		return Agg{st.zero64, st.opaqueError("strconv.ParseFloat: invalid syntax")}
	}
	return m
}

// parseFloatOverflows decides (by branching) whether mant * 10^exp rounds to
// infinity in the given float width. With d = number of decimal digits of mant:
// the value lies in [10^(d-1+exp), 10^(d+exp)); it overflows iff mant != 0 and
// either d+exp > L, or d+exp == L and mant scaled to 19 digits reaches the
// 19-digit prefix of (MaxFloat + half an ulp), L = 309 (float64) / 39 (float32).
func (st *State) parseFloatOverflows(mant, exp, trunc, hex *smt.Term, bits int) bool {
	c := st.c
	if !pfCriterionOK {
		st.end("UNSUPPORTED", "strconv.ParseFloat range criterion does not hold for this toolchain")
	}
	limit, prefix := int64(309), uint64(1797693134862315808)
	if bits == 32 {
		limit, prefix = 39, 3402823567797336617
	}
	// cheap exit: the exponent cannot get near the limit
	_, hiE := urangeD(exp, 0, st.domains)
	if hiE < uint64(limit-19) {
		return false
	}
	k := func(v int64) *smt.Term { return c.Const(uint64(v), 64) }
	if !st.branch(c.Slt(k(limit-20), exp), "parsefloat-exp-large") {
		return false // exp <= limit-20: d+exp <= limit-1
	}
	if st.branch(c.BOr(trunc, hex), "parsefloat-trunc-or-hex") {
		st.end("UNSUPPORTED", "strconv.ParseFloat range test for truncated or hexadecimal mantissa")
	}
	if st.branch(c.Eq(mant, k(0)), "parsefloat-zero") {
		return false
	}
	// d: number of decimal digits of mant (1..20)
	pow := uint64(1)
	for d := int64(1); d <= 20; d++ {
		last := d == 20
		var isD *smt.Term
		if !last {
			isD = c.Ult(mant, c.Const(pow*10, 64))
		}
		if last || st.branch(isD, "parsefloat-digits") {
			// d + exp compared with limit
			sum := c.Add(exp, k(d))
			if st.branch(c.Slt(k(limit), sum), "parsefloat-above") {
				return true
			}
			if st.branch(c.Slt(sum, k(limit)), "parsefloat-below") {
				return false
			}
			if d > 19 {
				return true // 20-digit mantissa at the limit decade: >= 10^19 * 10^(limit-20) > max
			}
			scale := uint64(1)
			for i := d; i < 19; i++ {
				scale *= 10
			}
			// mant*scale < 10^19 fits in 64 bits
			return st.branch(c.Ule(c.Const(prefix, 64), c.Mul(mant, c.Const(scale, 64))), "parsefloat-threshold")
		}
		pow *= 10
	}
	return false
}

type slotRef struct{ addr *smt.Term }

type mapIterState struct {
	keys, vals []*smt.Term
	pos        int
}

var opaqueReflectType = types.NewNamed(types.NewTypeName(0, nil, "opaqueReflectType", nil), types.NewPointer(types.NewStruct(nil, nil)), nil)

func isIfaceType(t types.Type) bool {
	_, ok := t.Underlying().(*types.Interface)
	return ok
}

func (st *State) tokenType(v Value) types.Type {
	t := tm(v)
	if !t.IsConst() {
		st.end("UNSUPPORTED", "symbolic *runtime.Type")
	}
	if t.V == 0 {
		st.end("PANIC", "nil *runtime.Type")
	}
	ty := st.w.typeOfToken(t.V)
	if ty == nil {
		st.end("UNSUPPORTED", "*runtime.Type %#x is not a type token", t.V)
	}
	return ty
}

func reflectKind(t types.Type) int {
	switch u := t.Underlying().(type) {
	case *types.Basic:
		switch u.Kind() {
		case types.Bool:
			return 1
		case types.Int:
			return 2
		case types.Int8:
			return 3
		case types.Int16:
			return 4
		case types.Int32:
			return 5
		case types.Int64:
			return 6
		case types.Uint:
			return 7
		case types.Uint8:
			return 8
		case types.Uint16:
			return 9
		case types.Uint32:
			return 10
		case types.Uint64:
			return 11
		case types.Uintptr:
			return 12
		case types.Float32:
			return 13
		case types.Float64:
			return 14
		case types.Complex64:
			return 15
		case types.Complex128:
			return 16
		case types.String:
			return 24
		case types.UnsafePointer:
			return 26
		}
	case *types.Array:
		return 17
	case *types.Chan:
		return 18
	case *types.Signature:
		return 19
	case *types.Interface:
		return 20
	case *types.Map:
		return 21
	case *types.Pointer:
		return 22
	case *types.Slice:
		return 23
	case *types.Struct:
		return 25
	}
	return 0
}

// goValue converts a concrete engine interface value of a basic dynamic type
// into a Go value (for real formatting).
func (st *State) goValue(iv Agg) (interface{}, bool) {
	tw := tm(iv[0])
	if !tw.IsConst() {
		return nil, false
	}
	if tw.V == 0 {
		return nil, true
	}
	dyn := st.w.typeOfToken(tw.V)
	if dyn == nil {
		return nil, false
	}
	ti := st.tc.of(dyn)
	switch ti.kind {
	case kString:
		v := st.unbox(iv, dyn).(Agg)
		bs := st.seqBytes(tm(v[0]), tm(v[1]))
		out := make([]byte, len(bs))
		for i, b := range bs {
			if !b.IsConst() {
				return nil, false
			}
			out[i] = byte(b.V)
		}
		return string(out), true
	case kInt:
		t := tm(st.unbox(iv, dyn))
		if !t.IsConst() {
			return nil, false
		}
		if ti.signed {
			return int64(sextU(t.V, t.W)), true
		}
		if b, ok := dyn.Underlying().(*types.Basic); ok && (b.Kind() == types.Uint8 || b.Kind() == types.Int32) && false {
			return t.V, true
		}
		return t.V, true
	case kBool:
		t := tm(st.unbox(iv, dyn))
		if !t.IsConst() {
			return nil, false
		}
		return t.V != 0, true
	}
	return nil, false
}

// reflectType builds a reflect.Type interface value for a type token.
func (st *State) reflectType(t types.Type) Value {
	rp := st.w.P.Prog.ImportedPackage("reflect")
	if rp == nil {
		st.end("UNSUPPORTED", "reflect package not loaded")
	}
	iface := rp.Type("Type").Type()
	rt := types.NewPointer(rp.Type("rtype").Type())
	return Agg{st.c.Const(st.w.itabFor(iface, rt), 64), st.c.Const(st.w.tokenFor(t), 64)}
}

// opaqueError builds an error value of dynamic type *errors.errorString.
func (st *State) opaqueError(text string) Value {
	ep := st.w.P.Prog.ImportedPackage("errors")
	if ep == nil {
		st.end("UNSUPPORTED", "errors package not loaded")
	}
	est := ep.Type("errorString").Type()
	p := st.alloc(16, "errorString")
	st.storeT(p, est, Agg{st.constString(text)})
	errT := types.Universe.Lookup("error").Type()
	return st.makeInterface(p, types.NewPointer(est), errT)
}

// ---------------------------------------------------------------- verifrt

func (st *State) verifrtCall(fn *ssa.Function, args []Value) (Value, bool) {
	name := fn.Name()
	c := st.c
	str := func(i int) string { return st.goString(args[i]) }
	switch name {
	case "Byte", "U8":
		return st.nondet(str(1), 8, "u8"), true
	case "U16":
		return st.nondet(str(1), 16, "u16"), true
	case "U32":
		return st.nondet(str(1), 32, "u32"), true
	case "U64", "I64":
		return st.nondet(str(1), 64, "u64"), true
	case "Bool":
		return st.nondet(str(1), 0, "bool"), true
	case "Choice":
		n := st.concreteInt(tm(args[2]), "Choice n")
		return c.Const(uint64(st.nondetChoice(str(1), n)), 64), true
	case "Bytes", "BytesCap", "String":
		nm := str(1)
		n := st.concreteInt(tm(args[2]), "Bytes n")
		cp := n
		if name == "BytesCap" {
			cp = st.concreteInt(tm(args[3]), "Bytes cap")
		}
		bs := make([]*smt.Term, n)
		for i := range bs {
			bs[i] = st.nondet(fmt.Sprintf("%s[%d]", nm, i), 8, "u8")
		}
		o := st.newObject(cp, "sym:"+nm)
		copy(o.data, bs)
		p := c.Const(o.base(), 64)
		if name == "String" {
			if n == 0 {
				return Agg{st.zero64, st.zero64}, true
			}
			o.ro = true
			return Agg{p, c.Const(uint64(n), 64)}, true
		}
		return Agg{p, c.Const(uint64(n), 64), c.Const(uint64(cp), 64)}, true
	case "Assume":
		st.assume(tm(args[1]))
		return nil, true
	case "Assert":
		st.assertProp(str(1), tm(args[2]))
		return nil, true
	case "Cover":
		st.cover(str(1), tm(args[2]), false)
		return nil, true
	case "Known":
		st.cover(str(1), tm(args[2]), true)
		return nil, true
	case "Observe":
		t := tm(args[2])
		s := "sym"
		if t.IsConst() {
			s = fmt.Sprintf("%d", t.V)
		}
		st.observed = append(st.observed, Observation{str(1), s})
		return nil, true
	case "ObserveBool":
		t := tm(args[2])
		s := "sym"
		if t.IsConst() {
			s = fmt.Sprintf("%d", t.V)
		}
		st.observed = append(st.observed, Observation{str(1), s})
		return nil, true
	case "ObserveBytes", "ObserveString":
		a := args[2].(Agg)
		var sb strings.Builder
		if tm(a[1]).IsConst() {
			for _, b := range st.seqBytes(tm(a[0]), tm(a[1])) {
				if b.IsConst() {
					fmt.Fprintf(&sb, "%02x", b.V)
				} else {
					sb.WriteString("??")
				}
			}
		} else {
			sb.WriteString("symlen")
		}
		st.observed = append(st.observed, Observation{str(1), sb.String()})
		return nil, true
	case "Param":
		v, ok := st.w.Params[str(1)]
		if !ok {
			st.end("ABORT", "missing harness parameter %q", str(1))
		}
		return c.Const(uint64(v), 64), true
	case "ParamOr":
		if v, ok := st.w.Params[str(1)]; ok {
			return c.Const(uint64(v), 64), true
		}
		return args[2], true
	case "AllowPanic":
		st.allowPanic = true
		return nil, true
	case "Symbolic":
		// true whenever the harness runs inside the engine (also in concrete validation runs)
		return c.True, true
	case "TableFormula":
		// TableFormula(ptr, elemSize, count, f): verified rewrite of symbolic-index
		// loads from a constant table by the formula f. The engine checks
		// f(i) == table[i] for every i on the current memory contents first.
		ptr := tm(args[1])
		es := st.concreteInt(tm(args[2]), "elemSize")
		cnt := st.concreteInt(tm(args[3]), "count")
		k, rest := st.splitAddr(ptr)
		o := st.objAt(k)
		if rest != nil || o == nil || k != o.base() || es*cnt > o.size || es > 8 {
			st.end("ABORT", "TableFormula: bad table pointer")
		}
		okAll := true
		for i := 0; i < cnt && okAll; i++ {
			want := st.bytesToTerm(st.loadBytes(st.addrAdd(ptr, int64(i*es)), es))
			got := tm(st.callValue(args[4], []Value{c.Const(uint64(i), 64)}))
			got = c.Extract(got, uint8(es*8-1), 0)
			if !want.IsConst() || !got.IsConst() || want.V != got.V {
				okAll = false
			}
		}
		if okAll {
			if st.tables == nil {
				st.tables = map[int]*tableSummary{}
			}
			st.tables[o.id] = &tableSummary{es: es, cnt: cnt, f: args[4]}
		}
		return c.Bool(okAll), true
	case "Track":
		return nil, true
	case "KnownIfCrash":
		st.crashID, st.crashCond = str(1), tm(args[2])
		return nil, true
	case "SameObject":
		a, b := tm(args[1]), tm(args[2])
		ka, _ := st.splitAddr(a)
		kb, _ := st.splitAddr(b)
		oa, ob := st.objAt(ka), st.objAt(kb)
		return c.Bool(oa != nil && oa == ob), true
	}
	return nil, false
}

func (st *State) assertProp(id string, cond *smt.Term) {
	if !st.replaying() || st.w.Opt.IsConcrete {
		st.w.noteObligation(id)
		switch {
		case cond.IsTrue():
		case cond.IsFalse():
			if !st.recordFail(id, "ASSERT", "assertion "+id+" fails on every input of this path") {
				st.end("INFEASIBLE", "path condition unsatisfiable at assertion %s", id)
			}
		default:
			// a conjunction is discharged conjunct by conjunct (smaller queries)
			conjs := flattenAnd(cond, nil)
			if len(conjs) > 256 {
				conjs = []*smt.Term{cond}
			}
			for _, cj := range conjs {
				if _, _, fmask, uni := st.univariate(cj); uni && !nonEmpty(fmask) {
					// holds for every value in the byte's domain (complete when the path
					// condition constrains bytes only individually)
					st.w.Stats.FastDecided++
					continue
				}
				n := len(st.fails)
				st.recordFail(id, "ASSERT", "assertion "+id+" can fail", st.c.BNot(cj))
				if len(st.fails) > n && !strings.HasPrefix(st.fails[len(st.fails)-1].Kind, "UNKNOWN") {
					break
				}
			}
		}
	}
	if cond.IsFalse() {
		st.end("ASSERTFAIL", "assertion %s", id)
	}
	if !cond.IsTrue() {
		if _, _, _, uni := st.univariate(cond); !uni {
			st.multiVar = true
			if traceDec {
				fmt.Fprintf(os.Stderr, "MULTIVAR %s %v\n", st.curPos(), cond)
			}
		}
		// continue under the assumption that it held
		v, tmask, _, uni := st.univariate(cond)
		if uni {
			if !nonEmpty(tmask) {
				st.end("ASSERTFAIL", "assertion %s", id)
			}
			st.refine(v, tmask)
			cond = st.domainTerm(v, tmask)
		}
		st.assertAtLevel(cond)
	}
}

func (st *State) cover(id string, cond *smt.Term, known bool) {
	if st.w.Opt.IsConcrete {
		if cond.IsTrue() {
			st.covers[id] = true
			if known {
				st.fails = append(st.fails, AssertFail{ID: id, Kind: "KNOWN"})
			}
		}
		return
	}
	if st.replaying() || cond.IsFalse() {
		return
	}
	if st.w.covered[id] {
		return
	}
	if !cond.IsTrue() {
		_, tmask, _, uni := st.univariate(cond)
		if uni {
			if !nonEmpty(tmask) {
				return
			}
		} else if !known && !st.feasible(cond) {
			return
		}
	}
	if known {
		// need a witness
		r, m := st.model(cond)
		if r != smt.Sat {
			return
		}
		f := AssertFail{ID: id, Kind: "KNOWN", Pos: st.curPos(), Model: m}
		f.Vector, f.Names = st.vector(m)
		st.fails = append(st.fails, f)
	}
	st.w.covered[id] = true
	st.covers[id] = true
}

func flattenAnd(t *smt.Term, out []*smt.Term) []*smt.Term {
	if t.Op == smt.OpBAnd {
		out = flattenAnd(t.A, out)
		return flattenAnd(t.B, out)
	}
	return append(out, t)
}
