package ssaexec

import (
	"go/token"
	"go/types"
	"math"
	"unicode/utf8"

	"golang.org/x/tools/go/ssa"

	"gosym/smt"
)

func (st *State) binop(op token.Token, x, y Value, xt, yt types.Type) Value {
	ti := st.tc.of(xt)
	switch ti.kind {
	case kBool:
		a, b := tm(x), tm(y)
		switch op {
		case token.EQL:
			return st.c.Eq(a, b)
		case token.NEQ:
			return st.c.BNot(st.c.Eq(a, b))
		case token.AND:
			return st.c.BAnd(a, b)
		case token.OR:
			return st.c.BOr(a, b)
		case token.XOR:
			return st.c.BNot(st.c.Eq(a, b))
		}
	case kInt, kPtr:
		return st.intBinop(op, tm(x), tm(y), ti, st.tc.of(yt))
	case kFloat:
		return st.floatBinop(op, tm(x), tm(y), ti.width)
	case kString:
		a, b := x.(Agg), y.(Agg)
		switch op {
		case token.EQL:
			return st.strEq(a, b)
		case token.NEQ:
			return st.c.BNot(st.strEq(a, b))
		case token.ADD:
			ba := st.seqBytes(tm(a[0]), tm(a[1]))
			bb := st.seqBytes(tm(b[0]), tm(b[1]))
			all := append(append([]*smt.Term(nil), ba...), bb...)
			if len(all) == 0 {
				return Agg{st.zero64, st.zero64}
			}
			p := st.newBytesObject(all, len(all), "strcat")
			return Agg{p, st.c.Const(uint64(len(all)), 64)}
		case token.LSS, token.LEQ, token.GTR, token.GEQ:
			sa, sb := st.goString(a), st.goString(b)
			var r bool
			switch op {
			case token.LSS:
				r = sa < sb
			case token.LEQ:
				r = sa <= sb
			case token.GTR:
				r = sa > sb
			case token.GEQ:
				r = sa >= sb
			}
			return st.c.Bool(r)
		}
	case kIface:
		eq := st.ifaceEq(x.(Agg), y.(Agg), xt)
		if op == token.EQL {
			return eq
		}
		if op == token.NEQ {
			return st.c.BNot(eq)
		}
	case kStruct, kArray:
		eq := st.valueEq(x, y, xt)
		if op == token.EQL {
			return eq
		}
		if op == token.NEQ {
			return st.c.BNot(eq)
		}
	case kSlice:
		// only comparison with nil reaches here
		a, b := x.(Agg), y.(Agg)
		eq := st.c.Eq(tm(a[0]), tm(b[0]))
		if op == token.EQL {
			return eq
		}
		if op == token.NEQ {
			return st.c.BNot(eq)
		}
	}
	st.end("UNSUPPORTED", "binop %s on %s", op, xt)
	return nil
}

func (st *State) intBinop(op token.Token, a, b *smt.Term, ti, yi *tinfo) Value {
	c := st.c
	signed := ti.signed && ti.kind == kInt
	switch op {
	case token.ADD:
		return c.Add(a, b)
	case token.SUB:
		return c.Sub(a, b)
	case token.MUL:
		return c.Mul(a, b)
	case token.QUO, token.REM:
		st.require(c.BNot(c.Eq(b, c.Const(0, b.W))), "PANIC", "integer divide by zero")
		switch {
		case op == token.QUO && signed:
			return c.SDiv(a, b)
		case op == token.QUO:
			return c.UDiv(a, b)
		case signed:
			return c.SRem(a, b)
		default:
			return c.URem(a, b)
		}
	case token.AND:
		return c.And(a, b)
	case token.OR:
		return c.Or(a, b)
	case token.XOR:
		return c.Xor(a, b)
	case token.AND_NOT:
		return c.And(a, c.Not(b))
	case token.SHL, token.SHR:
		// shift count: unsigned (or signed non-negative) of possibly different width
		cnt := b
		w := a.W
		var over *smt.Term // count >= width
		if yi.signed {
			st.require(c.Sle(c.Const(0, cnt.W), cnt), "PANIC", "negative shift amount")
		}
		if cnt.W > w {
			over = c.Ule(c.Const(uint64(w), cnt.W), cnt)
			cnt = c.Extract(cnt, w-1, 0)
		} else {
			cnt = c.ZExt(cnt, w)
			over = c.False
		}
		var r, sat *smt.Term
		switch {
		case op == token.SHL:
			r, sat = c.Shl(a, cnt), c.Const(0, w)
		case signed:
			r, sat = c.AShr(a, cnt), c.AShr(a, c.Const(uint64(w-1), w))
		default:
			r, sat = c.LShr(a, cnt), c.Const(0, w)
		}
		return c.Ite(over, sat, r)
	case token.EQL:
		return c.Eq(a, b)
	case token.NEQ:
		return c.BNot(c.Eq(a, b))
	case token.LSS:
		if signed {
			return c.Slt(a, b)
		}
		return c.Ult(a, b)
	case token.LEQ:
		if signed {
			return c.Sle(a, b)
		}
		return c.Ule(a, b)
	case token.GTR:
		if signed {
			return c.Slt(b, a)
		}
		return c.Ult(b, a)
	case token.GEQ:
		if signed {
			return c.Sle(b, a)
		}
		return c.Ule(b, a)
	}
	st.end("UNSUPPORTED", "integer binop %s", op)
	return nil
}

func f64(t *smt.Term) float64 {
	if t.W == 32 {
		return float64(math.Float32frombits(uint32(t.V)))
	}
	return math.Float64frombits(t.V)
}

func (st *State) fconst(f float64, w uint8) *smt.Term {
	if w == 32 {
		return st.c.Const(uint64(math.Float32bits(float32(f))), 32)
	}
	return st.c.Const(math.Float64bits(f), 64)
}

func (st *State) floatBinop(op token.Token, a, b *smt.Term, w uint8) Value {
	c := st.c
	if a.IsConst() && b.IsConst() {
		x, y := f64(a), f64(b)
		switch op {
		case token.ADD:
			return st.fconst(x+y, w)
		case token.SUB:
			return st.fconst(x-y, w)
		case token.MUL:
			return st.fconst(x*y, w)
		case token.QUO:
			return st.fconst(x/y, w)
		case token.EQL:
			return c.Bool(x == y)
		case token.NEQ:
			return c.Bool(x != y)
		case token.LSS:
			return c.Bool(x < y)
		case token.LEQ:
			return c.Bool(x <= y)
		case token.GTR:
			return c.Bool(x > y)
		case token.GEQ:
			return c.Bool(x >= y)
		}
	}
	switch op {
	case token.EQL:
		return c.FP(smt.OpFEq, 0, a, b)
	case token.NEQ:
		return c.BNot(c.FP(smt.OpFEq, 0, a, b))
	case token.LSS:
		return c.FP(smt.OpFLt, 0, a, b)
	case token.LEQ:
		return c.FP(smt.OpFLe, 0, a, b)
	case token.GTR:
		return c.FP(smt.OpFLt, 0, b, a)
	case token.GEQ:
		return c.FP(smt.OpFLe, 0, b, a)
	case token.ADD, token.SUB, token.MUL, token.QUO:
		// arithmetic on symbolic floats is uninterpreted
		return c.UF("f"+op.String()+itoa(int(w)), w, a, b)
	}
	st.end("UNSUPPORTED", "float binop %s", op)
	return nil
}

func itoa(i int) string {
	if i == 0 {
		return "0"
	}
	s := ""
	neg := i < 0
	if neg {
		i = -i
	}
	for i > 0 {
		s = string(rune('0'+i%10)) + s
		i /= 10
	}
	if neg {
		s = "-" + s
	}
	return s
}

func (st *State) convert(x Value, from, to types.Type) Value {
	fi, ti := st.tc.of(from), st.tc.of(to)
	c := st.c
	switch {
	case (fi.kind == kInt || fi.kind == kPtr) && (ti.kind == kInt || ti.kind == kPtr):
		return c.Resize(tm(x), ti.width, fi.signed && fi.kind == kInt)
	case fi.kind == kInt && ti.kind == kFloat:
		t := tm(x)
		if t.IsConst() {
			if fi.signed {
				return st.fconst(float64(int64(uint64(sextU(t.V, t.W)))), ti.width)
			}
			return st.fconst(float64(t.V), ti.width)
		}
		name := "utof"
		if fi.signed {
			name = "stof"
		}
		return c.UF(name+itoa(int(t.W))+"_"+itoa(int(ti.width)), ti.width, t)
	case fi.kind == kFloat && ti.kind == kInt:
		t := tm(x)
		if t.IsConst() {
			f := f64(t)
			if ti.signed {
				return c.Const(uint64(int64(f)), ti.width)
			}
			return c.Const(uint64(f), ti.width)
		}
		return c.UF("ftoi"+itoa(int(t.W))+"_"+itoa(int(ti.width)), ti.width, t)
	case fi.kind == kFloat && ti.kind == kFloat:
		t := tm(x)
		if t.W == ti.width {
			return t
		}
		if t.IsConst() {
			return st.fconst(f64(t), ti.width)
		}
		return c.UF("ftof"+itoa(int(t.W))+"_"+itoa(int(ti.width)), ti.width, t)
	case fi.kind == kString && ti.kind == kSlice:
		a := x.(Agg)
		et := st.tc.of(ti.elem)
		if et.size == 1 {
			bs := st.seqBytes(tm(a[0]), tm(a[1]))
			if len(bs) == 0 {
				// Go returns a non-nil empty slice; keep nil-ness unobservable: use a zero-size object
				p := st.alloc(0, "emptybytes")
				return Agg{p, st.zero64, st.zero64}
			}
			p := st.newBytesObject(bs, len(bs), "string->bytes")
			n := c.Const(uint64(len(bs)), 64)
			return Agg{p, n, n}
		}
		// []rune(string): concrete only
		s := st.goString(x)
		rs := []rune(s)
		p := st.alloc(len(rs)*4, "string->runes")
		for i, r := range rs {
			st.storeBytes(st.addrAdd(p, int64(i*4)), st.termToBytes(c.Const(uint64(r), 32), 4))
		}
		n := c.Const(uint64(len(rs)), 64)
		return Agg{p, n, n}
	case fi.kind == kSlice && ti.kind == kString:
		a := x.(Agg)
		et := st.tc.of(fi.elem)
		if et.size == 1 {
			bs := st.seqBytes(tm(a[0]), tm(a[1]))
			if len(bs) == 0 {
				return Agg{st.zero64, st.zero64}
			}
			p := st.newBytesObject(bs, len(bs), "bytes->string")
			return Agg{p, c.Const(uint64(len(bs)), 64)}
		}
		// string([]rune)
		n := st.concreteInt(tm(a[1]), "rune slice length")
		var out []byte
		for i := 0; i < n; i++ {
			r := st.bytesToTerm(st.loadBytes(st.addrAdd(tm(a[0]), int64(i*4)), 4))
			if !r.IsConst() {
				st.end("UNSUPPORTED", "string([]rune) with symbolic rune")
			}
			out = utf8.AppendRune(out, rune(int32(r.V)))
		}
		return st.constString(string(out))
	case fi.kind == kInt && ti.kind == kString:
		t := tm(x)
		if !t.IsConst() {
			return st.symbolicRuneString(c.Resize(t, 32, fi.signed))
		}
		r := rune(int64(sextU(t.V, t.W)))
		if !fi.signed {
			r = rune(t.V)
			if t.V > 0x10ffff {
				r = 0xfffd
			}
		}
		return st.constString(string(r))
	}
	st.end("UNSUPPORTED", "conversion %s -> %s", from, to)
	return nil
}

func sextU(v uint64, w uint8) uint64 {
	if w >= 64 {
		return v
	}
	sh := 64 - uint(w)
	return uint64(int64(v<<sh) >> sh)
}

// ---------------------------------------------------------------- builtins

func (st *State) callBuiltin(b *ssa.Builtin, cc *ssa.CallCommon, args []Value) Value {
	c := st.c
	switch b.Name() {
	case "len", "cap":
		at := cc.Args[0].Type()
		ti := st.tc.of(at)
		switch ti.kind {
		case kString:
			return args[0].(Agg)[1]
		case kSlice:
			if b.Name() == "len" {
				return args[0].(Agg)[1]
			}
			return args[0].(Agg)[2]
		case kArray:
			return c.Const(uint64(ti.n), 64)
		case kPtr:
			switch u := at.Underlying().(type) {
			case *types.Map:
				m := st.mapObj(args[0], false)
				if m == nil {
					return st.zero64
				}
				return c.Const(uint64(len(m.keys)), 64)
			case *types.Pointer:
				return c.Const(uint64(u.Elem().Underlying().(*types.Array).Len()), 64)
			}
		}
	case "append":
		return st.appendOp(args[0].(Agg), args[1], cc.Args[0].Type(), cc.Args[1].Type())
	case "copy":
		dst := args[0].(Agg)
		src := args[1].(Agg)
		es := 1
		if s, ok := cc.Args[0].Type().Underlying().(*types.Slice); ok {
			es = int(st.tc.of(s.Elem()).size)
		}
		nd := st.concreteInt(tm(dst[1]), "copy dst len")
		ns := st.concreteInt(tm(src[1]), "copy src len")
		n := nd
		if ns < n {
			n = ns
		}
		if n > 0 {
			bs := st.loadBytes(tm(src[0]), n*es)
			st.storeBytes(tm(dst[0]), bs)
		}
		return c.Const(uint64(n), 64)
	case "delete":
		m := st.mapObj(args[0], true)
		for i, ek := range m.keys {
			eq := st.valueEq(ek, args[1], m.ktyp)
			if eq.IsTrue() || (!eq.IsFalse() && st.branch(eq, "mapkey")) {
				m.keys = append(append([]Value(nil), m.keys[:i]...), m.keys[i+1:]...)
				m.vals = append(append([]Value(nil), m.vals[:i]...), m.vals[i+1:]...)
				break
			}
		}
		return nil
	case "print", "println":
		return nil
	case "recover":
		return Agg{st.zero64, st.zero64}
	case "ssa:wrapnilchk":
		p := tm(args[0])
		st.require(c.BNot(c.Eq(p, st.zero64)), "PANIC", "nil receiver in wrapper")
		return args[0]
	case "min", "max":
		ti := st.tc.of(cc.Args[0].Type())
		acc := tm(args[0])
		for _, a := range args[1:] {
			x := tm(a)
			var lt *smt.Term
			if ti.signed {
				lt = c.Slt(x, acc)
			} else {
				lt = c.Ult(x, acc)
			}
			if b.Name() == "max" {
				lt = c.BNot(c.BOr(lt, c.Eq(x, acc)))
			}
			acc = c.Ite(lt, x, acc)
		}
		return acc
	case "Add": // unsafe.Add
		return c.Add(tm(args[0]), c.Resize(tm(args[1]), 64, true))
	case "String", "Slice": // unsafe.String / unsafe.Slice
		n := c.Resize(tm(args[1]), 64, true)
		if b.Name() == "String" {
			return Agg{args[0], n}
		}
		return Agg{args[0], n, n}
	case "StringData", "SliceData":
		return args[0].(Agg)[0]
	case "clear":
		st.end("UNSUPPORTED", "clear builtin")
	}
	st.end("UNSUPPORTED", "builtin %s", b.Name())
	return nil
}

func (st *State) appendOp(s Agg, more Value, st0, mt types.Type) Value {
	c := st.c
	sl, ok := st0.Underlying().(*types.Slice)
	if !ok {
		st.end("UNSUPPORTED", "append to %s", st0)
	}
	es := int(st.tc.of(sl.Elem()).size)
	m := more.(Agg)
	n := st.concreteInt(tm(m[1]), "append arg length")
	if n == 0 {
		return s
	}
	ln := st.concreteInt(tm(s[1]), "append slice length")
	cp := st.concreteInt(tm(s[2]), "append slice capacity")
	src := st.loadBytes(tm(m[0]), n*es)
	if ln+n <= cp {
		st.storeBytes(st.addrAdd(tm(s[0]), int64(ln*es)), src)
		return Agg{s[0], c.Const(uint64(ln+n), 64), s[2]}
	}
	newCap := growCap(cp, ln+n, es)
	var old []*smt.Term
	if ln > 0 {
		old = st.loadBytes(tm(s[0]), ln*es)
	}
	p := st.alloc(newCap*es, "append")
	if ln > 0 {
		st.storeBytes(p, old)
	}
	st.storeBytes(st.addrAdd(p, int64(ln*es)), src)
	return Agg{p, c.Const(uint64(ln+n), 64), c.Const(uint64(newCap), 64)}
}

// growCap mirrors runtime.growslice's policy closely enough for small
// slices (doubling below 256 elements, then 1.25x + 192, rounded up to a size
// class approximated by 8/16-byte granularity).
func growCap(oldCap, needed, es int) int {
	newcap := oldCap
	doublecap := newcap + newcap
	if needed > doublecap {
		newcap = needed
	} else if oldCap < 256 {
		newcap = doublecap
	} else {
		for newcap < needed {
			newcap += (newcap + 3*256) / 4
		}
	}
	if es == 0 {
		return newcap
	}
	// round the byte size up to malloc size classes
	bytes := roundupsize(newcap * es)
	return bytes / es
}

var sizeClasses = []int{0, 8, 16, 24, 32, 48, 64, 80, 96, 112, 128, 144, 160, 176, 192, 208, 224, 240, 256, 288, 320, 352, 384, 416, 448, 480, 512, 576, 640, 704, 768, 896, 1024, 1152, 1280, 1408, 1536, 1792, 2048, 2304, 2688, 3072, 3200, 3456, 4096, 4864, 5376, 6144, 6528, 6784, 6912, 8192, 9472, 9728, 10240, 10880, 12288, 13568, 14336, 16384, 18432, 19072, 20480, 21760, 24576, 27264, 28672, 32768}

func roundupsize(n int) int {
	for _, s := range sizeClasses {
		if s >= n {
			return s
		}
	}
	return (n + 8191) &^ 8191
}

// symbolicRuneString: string(rune) for a symbolic rune: the encoded length
// class is decided by branching, the bytes are arithmetic terms.
func (st *State) symbolicRuneString(r *smt.Term) Value {
	c := st.c
	k := func(v uint64) *smt.Term { return c.Const(v, 32) }
	b8 := func(t *smt.Term) *smt.Term { return c.Extract(t, 7, 0) }
	var bs []*smt.Term
	switch {
	case st.branch(c.Ult(r, k(0x80)), "rune-1"):
		bs = []*smt.Term{b8(r)}
	case st.branch(c.Ult(r, k(0x800)), "rune-2"):
		bs = []*smt.Term{b8(c.Or(k(0xc0), c.LShr(r, k(6)))), b8(c.Or(k(0x80), c.And(r, k(0x3f))))}
	case st.branch(c.BOr(c.BAnd(c.Ule(k(0xd800), r), c.Ult(r, k(0xe000))), c.Ult(k(0x10ffff), r)), "rune-invalid"):
		bs = []*smt.Term{c.Const(0xef, 8), c.Const(0xbf, 8), c.Const(0xbd, 8)}
	case st.branch(c.Ult(r, k(0x10000)), "rune-3"):
		bs = []*smt.Term{b8(c.Or(k(0xe0), c.LShr(r, k(12)))), b8(c.Or(k(0x80), c.And(c.LShr(r, k(6)), k(0x3f)))), b8(c.Or(k(0x80), c.And(r, k(0x3f))))}
	default:
		bs = []*smt.Term{b8(c.Or(k(0xf0), c.LShr(r, k(18)))), b8(c.Or(k(0x80), c.And(c.LShr(r, k(12)), k(0x3f)))),
			b8(c.Or(k(0x80), c.And(c.LShr(r, k(6)), k(0x3f)))), b8(c.Or(k(0x80), c.And(r, k(0x3f))))}
	}
	p := st.newBytesObject(bs, len(bs), "runestring")
	return Agg{p, c.Const(uint64(len(bs)), 64)}
}
