package ssaexec

import (
	"fmt"
	"go/token"
	"go/types"
	"strings"

	"golang.org/x/tools/go/ssa"
	"golang.org/x/tools/go/types/typeutil"

	"gosym/smt"
)

// Worker owns everything that persists across the paths explored by one
// goroutine: the term context, the solver, the type-token table and the base
// snapshot produced by running the package initialisers once.
type Worker struct {
	P      *Program
	C      *smt.Ctx
	Solver *smt.Solver
	tc     *typeCache

	tokens   typeutil.Map // types.Type -> uint64 address
	tokenTyp []types.Type
	itabs    map[[2]uint64]uint64 // (iface token, concrete token) -> itab addr
	itabList [][2]uint64

	funcAddr map[*ssa.Function]uint64
	funcList []*ssa.Function

	globals map[*ssa.Global]uint64 // addresses of globals allocated in the base snapshot

	base *baseSnap

	Params map[string]int // harness parameters (t.Param)
	Opt    Options

	Stats Stats
	intr  map[string]intrinsic

	crossN      int
	executed    map[*ssa.Function]bool
	covered     map[string]bool
	Obligations map[string]int
}

type Options struct {
	LoopCap     int  // max visits of one block within one frame
	StepCap     int  // max instructions per path
	NoFast      bool // disable the byte-domain fast path (cross-check mode)
	CrossCheck  bool // send every fast-path verdict to the solver as well
	Concrete    []uint64 // concrete mode: nondet values come from this vector
	IsConcrete  bool
	Trace       bool
	SolverKind  string
	SolverTimeoutMs int
	IntAssert   bool // property (assertion) queries go to the integer translation first
	IntFirst    bool // arithmetic harness: decide queries on the integer translation first
	IntTimeoutMs int
}

type Stats struct {
	Paths        int
	Decisions    int
	FastDecided  int
	SolverChecks int
	Instrs       int64
	Unknowns     int
	IntervalDecided int
	DomainSimplified int
	IntQueries   int
	IntDecided   int
	IntTimeNs    int64
	CrossChecked int
	CrossMismatch int
}

type baseSnap struct {
	objs      []*Object
	closures  []*Closure
	maps      []*MapObj
	strIntern map[string]uint64
	globals   map[*ssa.Global]uint64
	poisoned  map[uint64]string
}

type Decision struct {
	n      int   // number of alternatives
	feas   []bool
	chosen int
	conds  []*smt.Term // condition asserted for each alternative (nil = none)
	label  string
}

// event: one nondeterministic input consumed by the harness, in call order.
type event struct {
	name   string
	v      *smt.Term // variable (nil for choices)
	choice int
	kind   string
}

type Frame struct {
	fn     *ssa.Function
	info   *fnInfo
	regs   []Value
	block  *ssa.BasicBlock
	prev   *ssa.BasicBlock
	pc     int
	defers []deferred
	caller *Frame
	result ssa.Value // call instruction in the caller receiving the result
	visits map[int]int
	onReturn func(ret Value) // engine-level continuation (used by intrinsics that call back)
	lastPos token.Pos
	deferring bool
	rundefersPC int
}

type deferred struct {
	fnv  Value // callee: *ssa.Function, closure address term, or builtin
	args []Value
	call *ssa.CallCommon
}

// State: everything that is rebuilt for every path.
type State struct {
	resolveDepth int
	w  *Worker
	c  *smt.Ctx
	tc *typeCache

	objs      []*Object
	closures  []*Closure
	maps      []*MapObj
	strIntern map[string]uint64
	globals   map[*ssa.Global]uint64
	poisoned  map[uint64]string

	frame *Frame
	depth int
	steps int

	// exploration
	plan     []Decision // forced prefix
	decs     []Decision // decisions taken on this path
	synced   int        // decisions [0,synced) are already on the solver stack
	hasPrev  bool
	mvVars   map[uint32]bool
	multiVar bool // the path condition contains constraints over more than one variable
	pathCond []*smt.Term
	domains  map[uint32]*[4]uint64 // byte-variable domains
	events   []event
	nameCnt  map[string]int
	concPos  int

	mapIters map[uint64]*mapIterState
	pools   map[uint64][]Value // sync.Pool contents under POOLREUSE
	tables  map[int]*tableSummary // verified table formulas by object id
	lenient bool // init mode: unknown calls poison instead of aborting

	zero8, zero64 *smt.Term

	// results of the current path
	observed []Observation
	fails    []AssertFail
	covers   map[string]bool
	allowPanic bool
	crashID    string
	crashCond  *smt.Term
	curInstr ssa.Instruction
}

type Observation struct {
	Name string
	Val  string
}

type AssertFail struct {
	ID    string
	Kind  string // ASSERT, PANIC, OOB
	Msg   string
	Pos   string
	Model map[string]uint64
	Vector []uint64
	Names  []string
}

func NewWorker(p *Program, opt Options) (*Worker, error) {
	w := &Worker{P: p, C: smt.NewCtx(), Opt: opt, Params: map[string]int{}}
	w.tc = &typeCache{sizes: p.Sizes, m: map[types.Type]*tinfo{}}
	w.itabs = map[[2]uint64]uint64{}
	w.funcAddr = map[*ssa.Function]uint64{}
	w.globals = map[*ssa.Global]uint64{}
	if w.Opt.LoopCap == 0 {
		w.Opt.LoopCap = 200
	}
	if w.Opt.StepCap == 0 {
		w.Opt.StepCap = 2_000_000
	}
	if w.Opt.SolverKind == "" {
		w.Opt.SolverKind = smt.DefaultZ3()
	}
	if w.Opt.SolverTimeoutMs == 0 {
		w.Opt.SolverTimeoutMs = 60000
	}
	w.intr = intrinsics()
	w.covered = map[string]bool{}
	w.executed = map[*ssa.Function]bool{}
	w.Obligations = map[string]int{}
	if !opt.IsConcrete {
		s, err := smt.NewSolver(w.C, w.Opt.SolverKind, w.Opt.SolverTimeoutMs)
		if err != nil {
			return nil, err
		}
		w.Solver = s
	}
	if err := w.runInits(); err != nil {
		return nil, err
	}
	return w, nil
}

func (w *Worker) Close() {
	if w.Solver != nil {
		w.Solver.Close()
	}
}

func (w *Worker) newState() *State {
	st := &State{w: w, c: w.C, tc: w.tc}
	st.zero8 = w.C.Const(0, 8)
	st.zero64 = w.C.Const(0, 64)
	st.domains = map[uint32]*[4]uint64{}
	st.nameCnt = map[string]int{}
	st.covers = map[string]bool{}
	if w.base != nil {
		st.objs = append([]*Object(nil), w.base.objs...)
		st.closures = append([]*Closure(nil), w.base.closures...)
		st.maps = append([]*MapObj(nil), w.base.maps...)
		st.strIntern = make(map[string]uint64, len(w.base.strIntern))
		for k, v := range w.base.strIntern {
			st.strIntern[k] = v
		}
		st.globals = make(map[*ssa.Global]uint64, len(w.base.globals))
		for k, v := range w.base.globals {
			st.globals[k] = v
		}
		st.poisoned = w.base.poisoned
	} else {
		st.strIntern = map[string]uint64{}
		st.globals = map[*ssa.Global]uint64{}
		st.poisoned = map[uint64]string{}
	}
	return st
}

// runInits executes the package initialisers concretely and freezes the
// result as the base snapshot.
func (w *Worker) runInits() error {
	st := w.newState()
	st.lenient = true
	for _, sp := range w.P.InitPkgs {
		initFn := sp.Func("init")
		if initFn == nil || len(initFn.Blocks) == 0 {
			continue
		}
		if err := st.runToCompletion(initFn, nil); err != nil {
			return fmt.Errorf("init of %s: %v", sp.Pkg.Path(), err)
		}
	}
	// harness packages may warm caches once (compiled opcode programs, once
	// flags): func VerifSetup() runs concretely here, before the snapshot is frozen
	st.lenient = false
	saveConc := w.Opt.IsConcrete
	w.Opt.IsConcrete = true
	for _, sp := range w.P.InitPkgs {
		if fn := sp.Func("VerifSetup"); fn != nil && len(fn.Blocks) > 0 {
			if err := st.runToCompletion(fn, nil); err != nil {
				w.Opt.IsConcrete = saveConc
				return fmt.Errorf("VerifSetup of %s: %v", sp.Pkg.Path(), err)
			}
		}
	}
	w.Opt.IsConcrete = saveConc
	for _, o := range st.objs {
		o.frozen = true
	}
	for _, m := range st.maps {
		m.frozen = true
	}
	w.base = &baseSnap{objs: st.objs, closures: st.closures, maps: st.maps, strIntern: st.strIntern,
		globals: st.globals, poisoned: st.poisoned}
	return nil
}

// runToCompletion runs fn as a top-level call; path-ending conditions come
// back as errors (only used for inits).
func (st *State) runToCompletion(fn *ssa.Function, args []Value) (err error) {
	defer func() {
		if r := recover(); r != nil {
			if pe, ok := r.(*pathEnd); ok {
				err = fmt.Errorf("%s: %s at %s", pe.status, pe.msg, pe.pos)
				return
			}
			panic(r)
		}
	}()
	st.frame = nil
	st.depth = 0
	st.pushFrame(fn, args, nil)
	st.run()
	st.frame = nil
	return nil
}

func (st *State) curPos() string {
	if st.frame == nil {
		return "?"
	}
	var parts []string
	f := st.frame
	in := st.curInstr
	for i := 0; f != nil && i < 6; i++ {
		name := f.fn.String()
		if j := strings.LastIndex(name, "/"); j >= 0 {
			name = name[j+1:]
		}
		pos := "?"
		if in != nil && in.Pos().IsValid() {
			pos = posStr(st.w.P.Fset, in.Pos())
		} else if f.lastPos.IsValid() {
			pos = posStr(st.w.P.Fset, f.lastPos)
		}
		parts = append(parts, name+"@"+pos)
		if f.caller != nil && f.result != nil {
			in, _ = f.result.(ssa.Instruction)
		} else {
			in = nil
		}
		f = f.caller
	}
	return strings.Join(parts, " < ")
}

// ---------------------------------------------------------------- type tokens

func (w *Worker) tokenFor(t types.Type) uint64 {
	if v := w.tokens.At(t); v != nil {
		return v.(uint64)
	}
	a := tokenBase + uint64(len(w.tokenTyp))*tokenStep
	w.tokens.Set(t, a)
	w.tokenTyp = append(w.tokenTyp, t)
	return a
}

func (w *Worker) typeOfToken(a uint64) types.Type {
	if a < tokenBase || a >= itabBase {
		return nil
	}
	i := (a - tokenBase) / tokenStep
	if (a-tokenBase)%tokenStep != 0 || i >= uint64(len(w.tokenTyp)) {
		return nil
	}
	return w.tokenTyp[i]
}

func (w *Worker) itabFor(iface, conc types.Type) uint64 {
	k := [2]uint64{w.tokenFor(iface), w.tokenFor(conc)}
	if a, ok := w.itabs[k]; ok {
		return a
	}
	a := itabBase + uint64(len(w.itabList))*tokenStep
	w.itabs[k] = a
	w.itabList = append(w.itabList, k)
	return a
}

func (w *Worker) itabAt(a uint64) (k [2]uint64, ok bool) {
	if a < itabBase || a >= closBase {
		return k, false
	}
	i := (a - itabBase) / tokenStep
	if (a-itabBase)%tokenStep != 0 || i >= uint64(len(w.itabList)) {
		return k, false
	}
	return w.itabList[i], true
}

func (w *Worker) funcAddrOf(fn *ssa.Function) uint64 {
	if a, ok := w.funcAddr[fn]; ok {
		return a
	}
	// plain functions live in a region just below the closures
	a := closBase - 0x10000000 + uint64(len(w.funcList))*16
	w.funcAddr[fn] = a
	w.funcList = append(w.funcList, fn)
	return a
}

func (w *Worker) funcAt(a uint64) *ssa.Function {
	lo := closBase - 0x10000000
	if a < lo || a >= closBase || (a-lo)%16 != 0 {
		return nil
	}
	i := (a - lo) / 16
	if i >= uint64(len(w.funcList)) {
		return nil
	}
	return w.funcList[i]
}

func isEmptyIface(t types.Type) bool {
	it, ok := t.Underlying().(*types.Interface)
	return ok && it.NumMethods() == 0
}

// pointerShaped: does gc store values of this type directly in the interface
// data word?
func pointerShaped(t types.Type) bool {
	switch u := t.Underlying().(type) {
	case *types.Pointer, *types.Map, *types.Chan, *types.Signature:
		return true
	case *types.Basic:
		return u.Kind() == types.UnsafePointer
	case *types.Struct:
		return u.NumFields() == 1 && pointerShaped(u.Field(0).Type())
	case *types.Array:
		return u.Len() == 1 && pointerShaped(u.Elem())
	}
	return false
}

func (w *Worker) noteObligation(id string) { w.Obligations[id]++ }

type FuncInfo struct {
	Name    string `json:"name"`
	Instrs  int    `json:"ssa_instrs"`
	SrcHash string `json:"src_hash"`
	Pos     string `json:"pos"`
}

// FunctionsExecuted lists the repo/std functions whose SSA was executed by
// this worker outside the initialisers (harness and reference functions
// included).
func (w *Worker) FunctionsExecuted() []FuncInfo {
	var out []FuncInfo
	for fn := range w.executed {
		fi := w.P.info(fn)
		out = append(out, FuncInfo{Name: fn.String(), Instrs: fi.instrs, SrcHash: w.P.srcHash(fn), Pos: posStr(w.P.Fset, fn.Pos())})
	}
	return out
}

type tableSummary struct {
	es, cnt int
	f       Value
}
