// Package ssaexec: a forking symbolic executor over go/ssa.
package ssaexec

import (
	"fmt"
	"go/token"
	"go/types"
	"hash/fnv"
	"os"
	"sort"
	"strings"
	"sync"

	"golang.org/x/tools/go/packages"
	"golang.org/x/tools/go/ssa"
	"golang.org/x/tools/go/ssa/ssautil"
)

// Program is the immutable, shared part: the SSA of /repo's current tree with
// the harness overlay applied.
type Program struct {
	Prog    *ssa.Program
	Pkgs    []*ssa.Package
	Fset    *token.FileSet
	Sizes   types.Sizes
	RepoPkg map[string]*ssa.Package // by import path
	mu      sync.Mutex
	finfo   map[*ssa.Function]*fnInfo
	InitPkgs []*ssa.Package // packages whose init is run, dependency order
}

type LoadConfig struct {
	Dir      string            // /repo
	Patterns []string          // package patterns
	Overlay  map[string][]byte // virtual files
	Tags     string            // build tags
	ExtraInit []string         // extra std packages whose init must be run
}

func Load(cfg LoadConfig) (*Program, error) {
	pcfg := &packages.Config{
		Mode:       packages.LoadAllSyntax,
		Dir:        cfg.Dir,
		Overlay:    cfg.Overlay,
		BuildFlags: []string{"-tags=" + cfg.Tags},
		Env:        append(os.Environ(), "GOFLAGS=-mod=mod", "GOPROXY=off", "GOSUMDB=off", "GOTOOLCHAIN=local"),
		Tests:      false,
	}
	initial, err := packages.Load(pcfg, cfg.Patterns...)
	if err != nil {
		return nil, err
	}
	var errs []string
	packages.Visit(initial, nil, func(p *packages.Package) {
		for _, e := range p.Errors {
			errs = append(errs, e.Error())
		}
	})
	if len(errs) > 0 {
		return nil, fmt.Errorf("load errors:\n%s", strings.Join(errs, "\n"))
	}
	prog, pkgs := ssautil.AllPackages(initial, ssa.InstantiateGenerics|ssa.BareInits)
	prog.Build()
	p := &Program{Prog: prog, Fset: prog.Fset, Sizes: types.SizesFor("gc", "amd64"),
		RepoPkg: map[string]*ssa.Package{}, finfo: map[*ssa.Function]*fnInfo{}}
	for _, sp := range pkgs {
		if sp != nil {
			p.Pkgs = append(p.Pkgs, sp)
		}
	}
	// init order: dependency order over all packages, restricted to the repo
	// module + a fixed list of leaf std packages whose tables are needed.
	want := map[string]bool{"unicode/utf8": true, "unicode/utf16": true, "math/bits": true, "strconv": true,
		"errors": true, "io": true, "bytes": true, "encoding/base64": true, "math": true, "unicode": true, "strings": true, "sync": false}
	for _, e := range cfg.ExtraInit {
		want[e] = true
	}
	seen := map[*packages.Package]bool{}
	var order []*packages.Package
	var visit func(pk *packages.Package)
	visit = func(pk *packages.Package) {
		if seen[pk] {
			return
		}
		seen[pk] = true
		var names []string
		for n := range pk.Imports {
			names = append(names, n)
		}
		sort.Strings(names)
		for _, n := range names {
			visit(pk.Imports[n])
		}
		order = append(order, pk)
	}
	for _, pk := range initial {
		visit(pk)
	}
	for _, pk := range order {
		sp := prog.Package(pk.Types)
		if sp == nil {
			continue
		}
		isRepo := strings.HasPrefix(pk.PkgPath, "github.com/goccy/go-json")
		if isRepo {
			p.RepoPkg[pk.PkgPath] = sp
		}
		if isRepo || want[pk.PkgPath] {
			p.InitPkgs = append(p.InitPkgs, sp)
		}
	}
	return p, nil
}

// FindFunc resolves "pkgpath.Func" or "pkgpath.(*T).Method".
func (p *Program) FindFunc(pkgPath, name string) *ssa.Function {
	for _, sp := range p.Pkgs {
		if sp.Pkg.Path() == pkgPath {
			if f := sp.Func(name); f != nil {
				return f
			}
		}
	}
	if sp := p.Prog.ImportedPackage(pkgPath); sp != nil {
		return sp.Func(name)
	}
	return nil
}

func (p *Program) Package(path string) *ssa.Package {
	for _, sp := range p.Pkgs {
		if sp.Pkg.Path() == path {
			return sp
		}
	}
	return nil
}

// srcHash hashes the source text of fn (overlay-aware through the file set's
// recorded content is not available, so the file is re-read from disk; harness
// overlay files are hashed from /verif).
func (p *Program) srcHash(fn *ssa.Function) string {
	syn := fn.Syntax()
	if syn == nil {
		return ""
	}
	a, b := p.Fset.Position(syn.Pos()), p.Fset.Position(syn.End())
	data, err := os.ReadFile(a.Filename)
	if err != nil || b.Offset > len(data) || a.Offset > b.Offset {
		return ""
	}
	h := fnv.New64a()
	h.Write(data[a.Offset:b.Offset])
	return fmt.Sprintf("%016x", h.Sum64())
}

// fnInfo: per-function precomputed register numbering.
type fnInfo struct {
	switches map[*ssa.BasicBlock]*ssautil.Switch
	fn    *ssa.Function
	index map[ssa.Value]int
	nregs int
	instrs int
}

func (p *Program) info(fn *ssa.Function) *fnInfo {
	p.mu.Lock()
	defer p.mu.Unlock()
	if fi, ok := p.finfo[fn]; ok {
		return fi
	}
	fi := &fnInfo{fn: fn, index: map[ssa.Value]int{}}
	n := 0
	for _, prm := range fn.Params {
		fi.index[prm] = n
		n++
	}
	for _, fv := range fn.FreeVars {
		fi.index[fv] = n
		n++
	}
	for _, b := range fn.Blocks {
		for _, in := range b.Instrs {
			fi.instrs++
			if v, ok := in.(ssa.Value); ok {
				fi.index[v] = n
				n++
			}
		}
	}
	fi.nregs = n
	fi.switches = map[*ssa.BasicBlock]*ssautil.Switch{}
	if len(fn.Blocks) > 0 {
		sws := ssautil.Switches(fn)
		for i := range sws {
			sw := &sws[i]
			if len(sw.ConstCases) >= 2 && sw.Start != nil {
				fi.switches[sw.Start] = sw
			}
		}
	}
	p.finfo[fn] = fi
	return fi
}

// ---------------------------------------------------------------- type kinds

type tkind uint8

const (
	kInvalid tkind = iota
	kBool
	kInt
	kFloat
	kString
	kPtr // pointer, unsafe.Pointer, map, chan, func
	kSlice
	kIface
	kStruct
	kArray
	kTuple
	kComplex
)

type tinfo struct {
	kind   tkind
	size   int64
	width  uint8 // bits for scalars
	signed bool
	fields []tfield // struct
	elem   types.Type
	n      int64 // array length
	under  types.Type
}

type tfield struct {
	off int64
	typ types.Type
}

type typeCache struct {
	sizes types.Sizes
	m     map[types.Type]*tinfo
}

func (tc *typeCache) of(t types.Type) *tinfo {
	if ti, ok := tc.m[t]; ok {
		return ti
	}
	ti := tc.compute(t)
	tc.m[t] = ti
	return ti
}

func (tc *typeCache) compute(t types.Type) *tinfo {
	u := t.Underlying()
	ti := &tinfo{under: u}
	switch u := u.(type) {
	case *types.Basic:
		info := u.Info()
		switch {
		case u.Kind() == types.UnsafePointer:
			ti.kind, ti.size, ti.width = kPtr, 8, 64
		case info&types.IsBoolean != 0:
			ti.kind, ti.size, ti.width = kBool, 1, 0
		case info&types.IsInteger != 0:
			ti.kind = kInt
			ti.size = tc.sizes.Sizeof(u)
			if u.Kind() == types.UntypedInt || u.Kind() == types.UntypedRune {
				ti.size = 8
			}
			ti.width = uint8(ti.size * 8)
			ti.signed = info&types.IsUnsigned == 0
		case info&types.IsFloat != 0:
			ti.kind = kFloat
			ti.size = tc.sizes.Sizeof(u)
			if u.Kind() == types.UntypedFloat {
				ti.size = 8
			}
			ti.width = uint8(ti.size * 8)
		case info&types.IsString != 0:
			ti.kind, ti.size = kString, 16
		case info&types.IsComplex != 0:
			ti.kind, ti.size = kComplex, tc.sizes.Sizeof(u)
		case u.Kind() == types.UntypedNil:
			ti.kind, ti.size, ti.width = kPtr, 8, 64
		default:
			ti.kind = kInvalid
		}
	case *types.Pointer, *types.Map, *types.Chan, *types.Signature:
		ti.kind, ti.size, ti.width = kPtr, 8, 64
	case *types.Slice:
		ti.kind, ti.size, ti.elem = kSlice, 24, u.Elem()
	case *types.Interface:
		ti.kind, ti.size = kIface, 16
	case *types.Struct:
		ti.kind = kStruct
		ti.size = tc.sizes.Sizeof(u)
		n := u.NumFields()
		vars := make([]*types.Var, n)
		for i := 0; i < n; i++ {
			vars[i] = u.Field(i)
		}
		offs := tc.sizes.Offsetsof(vars)
		for i := 0; i < n; i++ {
			ti.fields = append(ti.fields, tfield{off: offs[i], typ: vars[i].Type()})
		}
	case *types.Array:
		ti.kind, ti.elem, ti.n = kArray, u.Elem(), u.Len()
		ti.size = tc.sizes.Sizeof(u)
	case *types.Tuple:
		ti.kind = kTuple
		for i := 0; i < u.Len(); i++ {
			ti.fields = append(ti.fields, tfield{typ: u.At(i).Type()})
		}
	default:
		ti.kind = kInvalid
	}
	return ti
}

func posStr(fset *token.FileSet, pos token.Pos) string {
	if !pos.IsValid() {
		return "?"
	}
	p := fset.Position(pos)
	f := p.Filename
	if i := strings.LastIndex(f, "/repo/"); i >= 0 {
		f = f[i+6:]
	}
	return fmt.Sprintf("%s:%d", f, p.Line)
}
