#!/usr/bin/env python3
# renders known_findings.json (the file the checks read) as one line per entry
import json
k = json.load(open('known_findings.json'))
lines = ['# generated from known_findings.json by gen_known_txt.py; the checks read the JSON file',
         '# known: a genuine defect that is recorded, not repaired (the check prints KNOWN-FINDING and exits 0)',
         '# fixed: repaired by the named fix: commit(s) in /repo; suppresses nothing', '']
for e in k:
    what = ' '.join(e['what'].split())
    if e['status'] == 'fixed':
        lines.append('fixed: property=%s %s %s: %s' % (e['property'], e.get('commit', '?'), e['id'], what))
    else:
        lines.append('known: property=%s %s: %s' % (e['property'], e['id'], what))
open('KNOWN_FINDINGS.txt', 'w').write('\n'.join(lines) + '\n')
print(len(k), 'entries')
