#!/bin/bash
# runs the thorough tier of every check sequentially (used with: vp run --with-repo -- ./tools/thorough_all.sh)
cd "$(dirname "$0")/.."
[ -n "$VP_RUN_REPO" ] && export VERIF_REPO=$VP_RUN_REPO
export VERIF_EVIDENCE_DIR=$PWD/ev-thorough VERIF_REPLAY_DIR=$PWD/replays-thorough
mkdir -p $VERIF_EVIDENCE_DIR
tier=${1:-thorough}
: > summary.log
for id in ${THOROUGH_IDS:-C16 C17 C06 C15 C09 C05 C18 C03 C19 C01 C13 C11 C20 C02 C04 C07 C08 C12 C14}; do
  s=$(date +%s)
  timeout 4000 ./check $id --tier $tier > log-$id.txt 2>&1; ex=$?
  echo "$id exit=$ex secs=$(( $(date +%s)-s )) known=$(grep -c '^KNOWN-FINDING' log-$id.txt) viol=$(grep -c '^VIOLATION' log-$id.txt) inconc=$(grep -c '^INCONCLUSIVE' log-$id.txt)" >> summary.log
done
echo done >> summary.log
