#!/bin/bash
# validates the reference models (harness/verifref) natively against encoding/json / strconv
cd "$(dirname "$0")"
tmp=$(mktemp -d); trap 'rm -rf $tmp' EXIT
mkdir -p $tmp/verifref && cp harness/verifref/*.go $tmp/verifref/ && printf 'module reftest\n\ngo 1.23\n' > $tmp/go.mod
cd $tmp && GOFLAGS=-mod=mod GOPROXY=off GOSUMDB=off GOTOOLCHAIN=local go test -tags verif -count=1 -vet=off ./verifref "$@"
