#!/bin/bash
# usage: seedtest.sh <seed-src-dir> <seed-name> <property-id> [extra check args]
# 1. confirms the seed in a scratch worktree (build ok, suite ok, demo fails with / passes without)
# 2. applies it to /repo, runs ./check <ID>, undoes it; stores everything under /verif/seeded/<seed-name>/
src=$1; name=$2; id=$3; shift 3
export GOFLAGS=-mod=mod GOPROXY=off GOSUMDB=off GOTOOLCHAIN=local
wt=/tmp/wt-confirm-$$
git -C /repo worktree add -q $wt HEAD || exit 2
out=/verif/seeded/$name; mkdir -p $out
cp $src/patch.diff $src/demo_test.go $out/
res=$out/confirm.log; : > $res
loc=$(python3 -c "import json;print(json.load(open('$src/meta.json')).get('demo_location','root'))" 2>/dev/null || echo root)
ddir=.; dpkg=.
if [ "$loc" != "root" ] && [ -n "$loc" ]; then ddir=$loc; dpkg=./$loc; fi
( cd $wt
  cp $src/demo_test.go $ddir/zz_seed_demo_test.go
  echo "== pristine demo" >> $res; timeout 300 go test -vet=off -count=1 -run TestSeedDemo $dpkg >> $res 2>&1; p0=$?
  rm -f $ddir/zz_seed_demo_test.go
  git apply $src/patch.diff >> $res 2>&1 || { echo "APPLY FAILED" >> $res; }
  echo "== build" >> $res; go build ./... >> $res 2>&1; b=$?
  echo "== suite" >> $res; go test -vet=off -count=1 ./... 2>&1 | tail -12 >> $res; s=${PIPESTATUS[0]}
  cp $src/demo_test.go $ddir/zz_seed_demo_test.go
  echo "== seeded demo" >> $res; timeout 300 go test -vet=off -count=1 -run TestSeedDemo $dpkg >> $res 2>&1; p1=$?
  echo "RESULT pristine_demo_exit=$p0 build_exit=$b suite_exit=$s seeded_demo_exit=$p1" >> $res
)
git -C /repo worktree remove --force $wt
tail -1 $res
# run the check against a seeded scratch copy of /repo (same effect as applying the patch to /repo
# and undoing it, without disturbing other runs that read /repo)
wt2=/tmp/wt-seeded-$$
git -C /repo worktree add -q $wt2 HEAD || exit 2
git -C $wt2 apply $src/patch.diff || { echo "cannot apply"; git -C /repo worktree remove --force $wt2; exit 2; }
ev=$(mktemp -d)
( cd ${VERIF_RUN_DIR:-/verif} && VERIF_REPO=$wt2 VERIF_EVIDENCE_DIR=$ev VERIF_REPLAY_DIR=$out/replays timeout 3000 ./check $id "$@" > $out/check.log 2>&1; echo "check_exit=$?" >> $out/check.log )
rm -rf $ev
git -C /repo worktree remove --force $wt2
grep -h "VIOLATION\|check_exit\|INCONCLUSIVE" $out/check.log | cut -c1-300 | head -8
python3 - "$src" "$out" "$name" "$id" <<'PY'
import json,sys,re
src,out,name,pid=sys.argv[1:5]
meta=json.loads(open(src+'/meta.json',errors='replace').read())
conf=open(out+'/confirm.log',errors='replace').read().strip().split('\n')[-1]
chk=open(out+'/check.log',errors='replace').read()
meta['seed']=name
meta['confirmed_by_me']=conf
meta['check_cmd']='./check %s (quick tier unless noted)'%pid
m=re.search(r'check_exit=(\d+)',chk)
meta['check_exit']=int(m.group(1)) if m else None
meta['detected']= (meta['check_exit']==1)
meta['violation_lines']=[l for l in chk.split('\n') if l.startswith('VIOLATION') or 'violation detail' in l][:6]
json.dump(meta,open(out+'/meta.json','w'),indent=1)
PY
