#!/usr/bin/env python3
# Regenerates MANIFEST.json from harness/table.json (claimed checks) and
# not_applicable.json (reasons for unclaimed properties).
import json
props=[json.loads(l) for l in open('/verif/properties.jsonl')]
table=json.load(open('/verif/harness/table.json'))
na=json.load(open('/verif/not_applicable.json'))
notes=json.load(open('/verif/level_notes.json'))
claimed=[p['id'] for p in props if p['id'] in table]
m={
 "version":1,
 "setup_cmd":"cd /verif/engine && GOFLAGS=-mod=mod GOPROXY=off GOSUMDB=off GOTOOLCHAIN=local go build -o /verif/bin/gosym ./cmd/gosym",
 "hooks":{"guard":"verif","enable":"harness sources carry //go:build verif and are injected by overlay only (go/packages Overlay for the engine, go test -overlay for native replay); /repo carries no hook commits","baseline_off_cmd":"cd /repo && go test -mod=mod -vet=off -count=1 -timeout 25m ./...","source_commits":[],"add_only":True},
 "engines":[{"name":"gosym","path":"/verif/engine","serves_properties":claimed,"kind_free_text":"forking symbolic executor over go/ssa of /repo's current working tree (harnesses overlaid, build tag verif); SMT decides branch feasibility and assertions (z3 bit-vectors incrementally; integer translation with range-based wrap elimination raced on cvc5/z3 for arithmetic kernels; exhaustive 256-value evaluation for conditions over one input byte); counterexamples are replayed natively before being reported"}],
 "checks":[],
 "not_applicable":[],
 "notes":"see DESIGN.md; ./check <ID> --tier quick|thorough; exit 0 = held within bounds (KNOWN-FINDING lines possible), 1 = VIOLATION (natively replayed), 2 = inconclusive"
}
for p in props:
    i=p['id']
    if i in table:
        n=notes.get(i,{})
        m['checks'].append({
          "property_id":i,
          "quick_cmd":"./check %s --tier quick"%i,
          "thorough_cmd":"./check %s --tier thorough"%i,
          "evidence_file":"/verif/evidence/%s.json"%i,
          "replay_cmd_template":"./check %s --replay {path}"%i,
          "engine":"gosym",
          "level_claimed":{"category":table[i].get("level","model_checking"),"text":n.get("text","bounded symbolic execution of the real SSA of the anchored functions; the solver's verdict covers every input within the bounds stated in the evidence file"),"design_ref":n.get("design_ref","DESIGN.md section 7, "+i)},
          "level_note":n.get("note","trusted: go/ssa construction, gosym SSA semantics and memory model, z3/cvc5, reference models in harness/verifref, stubs listed in the evidence; bounds and what lies outside them are in the evidence file"),
          "technique":n.get("technique","symbolic execution of go/ssa + SMT (bit-vector / integer translation), native replay of counterexamples")})
    else:
        m['not_applicable'].append({"property_id":i,"reason":na.get(i,"check not built yet")})
json.dump(m,open('/verif/MANIFEST.json','w'),indent=1)
print("claimed:",claimed)
